package main

// Adversarial scratch pool. getDec documents "contents may not be zero"; this
// pool exercises that contract deterministically: every buffer handed out is
// full of (valid) garbage words, every buffer returned is immediately
// poisoned, and ownership is tracked (double put, put of a foreign buffer).
// Reached through the trampolines that scripts/overlay.sh substitutes for
// decPool.Get/Put in a build-time copy of dec.go.

import (
	"fmt"
	"sync"

	"github.com/db47h/decimal"
)

type advPool struct {
	mu       sync.Mutex
	free     []*[]Word
	out      map[*[]Word]bool
	known    map[*[]Word]bool
	gets     int64
	puts     int64
	problems []string
	capWords int
	seq      uint64
}

var theAdvPool *advPool

func garbageWord(i uint64) Word {
	switch i % 4 {
	case 0:
		return Word(BW - 1)
	case 1:
		return Word(BW/2 + 1)
	case 2:
		return Word(7777777777777777777)
	}
	return Word(1 + i%1000)
}

func (p *advPool) fill(b *[]Word, salt uint64) {
	s := (*b)[:cap(*b)]
	for i := range s {
		s[i] = garbageWord(uint64(i) + salt)
	}
}

func (p *advPool) get() interface{} {
	p.mu.Lock()
	defer p.mu.Unlock()
	p.gets++
	p.seq++
	var b *[]Word
	if n := len(p.free); n > 0 {
		b = p.free[n-1]
		p.free = p.free[:n-1]
	} else {
		s := make([]Word, 0, p.capWords)
		b = &s
		p.known[b] = true
	}
	p.fill(b, 0) // the same garbage every time: a failing case must not depend on earlier cases
	*b = (*b)[:0]
	p.out[b] = true
	return decimal.VerifDecPtr(b)
}

func (p *advPool) put(x interface{}) {
	p.mu.Lock()
	defer p.mu.Unlock()
	p.puts++
	b := decimal.VerifFromDecPtr(x)
	if b == nil {
		p.problems = append(p.problems, fmt.Sprintf("put of a %T (not a *dec)", x))
		return
	}
	if !p.out[b] {
		if p.known[b] {
			p.problems = append(p.problems, "double put of a pooled buffer")
		}
		// a buffer allocated by getDec itself (pool miss path is not used here) or foreign: adopt it
		p.known[b] = true
	}
	delete(p.out, b)
	// poison: a later use of this buffer by its previous owner reads garbage
	if cap(*b) > 0 {
		p.fill(b, 2)
	}
	p.free = append(p.free, b)
}

// installAdvPool replaces the library's sync.Pool by the adversarial pool.
// It returns false when the build has no pool seams (no overlay).
func installAdvPool(capWords int) *advPool {
	p := &advPool{out: map[*[]Word]bool{}, known: map[*[]Word]bool{}, capWords: capWords}
	decimal.VerifPoolGetFn = p.get
	decimal.VerifPoolPutFn = p.put
	theAdvPool = p
	return p
}

func uninstallAdvPool() {
	decimal.VerifPoolGetFn = nil
	decimal.VerifPoolPutFn = nil
	theAdvPool = nil
}

// poolSeamsPresent reports whether dec.go was built with the pool trampolines:
// it runs a division that must use the pool.
func poolSeamsPresent() bool {
	prev, pg, pp := theAdvPool, decimal.VerifPoolGetFn, decimal.VerifPoolPutFn
	p := installAdvPool(64)
	defer func() { theAdvPool, decimal.VerifPoolGetFn, decimal.VerifPoolPutFn = prev, pg, pp }()
	u := []Word{1, 2, 3, Word(BW - 1)}
	v := []Word{5, Word(BW / 2)}
	decimal.VerifDecDiv(nil, nil, u, v)
	return p.gets > 0
}

func (p *advPool) takeProblems() []string {
	p.mu.Lock()
	defer p.mu.Unlock()
	r := p.problems
	p.problems = nil
	// buffers still out (an operation panicked half-way) are simply forgotten
	p.out = map[*[]Word]bool{}
	return r
}
