package main

// C10 (product part): every operation × every aliasing partition × every
// receiver pre-state; differential oracle against the fresh/unaliased run plus
// the exact model.

import (
	"fmt"
)

func aliasValues() []*Opnd {
	vs := []*Opnd{
		mkInt64(3, 0, 19, 0), mkInt64(-12, -1, 19, 0), mkInt64(25, 1, 19, 0), mkInt64(999, -5, 19, 0),
		mkWords(false, []uint64{BW - 1}, 0, 0, 0),
		mkWords(true, []uint64{BW - 1, BW - 1}, 3, 0, 0),
		mkWords(false, []uint64{1, 0, BW / 10}, 20, 0, 0),
		mkWords(false, []uint64{BW / 2, BW/2 - 1, BW / 2}, -40, 0, 0),
		mkWords(true, []uint64{0, 0, 5 * (BW / 10)}, 1, 0, 0),
		mkSpecial(fZero, false, 19, 0), mkSpecial(fZero, true, 19, 0), mkSpecial(fInf, false, 19, 0), mkSpecial(fInf, true, 19, 0),
		mkSpecial(fZero, true, 19, 0).withStale(3), mkSpecial(fInf, false, 19, 0).withStale(1), // specials in variables with a history
	}
	// a 100-word value (pooled scratch paths in Mul/Quo)
	w := make([]uint64, 100)
	for i := range w {
		w[i] = BW - 1 - uint64(i%3)
	}
	w[99] = BW / 2
	vs = append(vs, mkWords(false, w, 7, 0, 0))
	w2 := make([]uint64, 100)
	for i := range w2 {
		w2[i] = uint64(i%7) * (BW / 9)
	}
	w2[99] = BW - 1
	vs = append(vs, mkWords(true, w2, -3, 0, 0))
	return vs
}

// X2: the outcome depends on operand *values* only — not on an operand's own
// precision, rounding mode or accuracy (decorations of cmp.go: other mode, larger
// precision, accuracy != Exact from a real rounding), also through the codecs.
func operandAttrLayer(tier string) Layer {
	type xop struct {
		name  string
		arity int
		do    func(z *Dec, a []*Dec) error
		model func(v []Val, p uint32, m uint8) RRes
	}
	viaSpec := func(id int) xop {
		sp := opSpecs[id]
		return xop{sp.Name, sp.Arity, func(z *Dec, a []*Dec) error { sp.Do(z, a); return nil }, sp.Model}
	}
	set := func(v []Val, p uint32, m uint8) RRes { return RoundVal(v[0], p, m) }
	xops := []xop{viaSpec(opAdd), viaSpec(opSub), viaSpec(opMul), viaSpec(opQuo), viaSpec(opFMA), viaSpec(opSqrt), viaSpec(opSet), viaSpec(opNeg), viaSpec(opAbs),
		{"GobDecode(x.GobEncode())", 1, func(z *Dec, a []*Dec) error {
			b, err := a[0].GobEncode()
			if err != nil {
				return err
			}
			return z.GobDecode(b)
		}, set},
		{"UnmarshalText(x.MarshalText())", 1, func(z *Dec, a []*Dec) error {
			b, err := a[0].MarshalText()
			if err != nil {
				return err
			}
			return z.UnmarshalText(b)
		}, set},
		{"SetString(x.Text('e',-1))", 1, func(z *Dec, a []*Dec) error {
			if _, ok := z.SetString(a[0].Text('e', -1)); !ok {
				return fmt.Errorf("SetString failed")
			}
			return nil
		}, set},
	}
	var vals []*Opnd
	for _, s := range []string{"3", "12", "25", "449", "451", "4500000000000000000001", "5500000000000000000000", "9999999999999999999", "99999999999999999995", "1000000000000000000050000000000000000001", "123456789012345678901234567890123456789"} {
		for _, neg := range []bool{false, true} {
			vals = append(vals, mkCoef(neg, mustInt(s), -2, 60, 0))
		}
	}
	vals = append(vals, mkSpecial(fZero, false, 60, 0), mkSpecial(fZero, true, 60, 0), mkSpecial(fInf, false, 60, 0), mkSpecial(fInf, true, 60, 0))
	precs := []uint32{1, 2, 19, 20, 38}
	return Layer{
		Name:   "X2-operand-attributes",
		Units:  len(xops),
		Bounds: fmt.Sprintf("operations {Add,Sub,Mul,Quo,FMA,Sqrt,Set,Neg,Abs, gob round trip, text round trip, SetString(Text)} × operands from %d values (ties, near-ties, multi-word, ±0, ±Inf), each in 4 decorations (as is, other rounding mode, larger precision, accuracy != Exact from a real rounding) × receiver precision %v × 6 modes × receiver pre-states {fresh, held-longer, neg-inexact}: result equals the undecorated run and the exact model", len(vals), precs),
		Run: func(c *Ctx, u int) {
			op := xops[u]
			idx := make([]int, op.arity)
			for {
				ops := make([]*Opnd, op.arity)
				for i := range ops {
					ops[i] = vals[idx[i]]
				}
				if op.arity < 3 || (idx[2]%3 == 0 && idx[1]%2 == 0) { // FMA: a third of the addends, half of the multipliers
					for _, prec := range precs {
						for _, m := range M6 {
							exp := op.model(valsOf(ops), prec, m)
							for dk := 0; dk < 4; dk++ {
								for _, pre := range []int{preFresh, preLonger, preInexact} {
									if c.Skip() {
										continue
									}
									args := make([]*Dec, op.arity)
									for i := range args {
										args[i] = decorated(ops[i], (dk+i)%4*b2i(dk != 0))
									}
									z := buildPre(pre, prec, m)
									var err error
									pv, isNaN := protect(func() { err = op.do(z, args) })
									key := func() string {
										return fmt.Sprintf("%s %s decoration=%d prec=%d mode=%s pre=%s", op.name, opndsString(ops), dk, prec, modeName(m), preNames[pre])
									}
									c.NonTrivial()
									if err != nil {
										c.Fail(key(), "error: "+err.Error())
										continue
									}
									o := Observe(z)
									c.Outcome(o.Hash())
									if msg := judgeFull(o, pv, isNaN, exp, false); msg != "" {
										c.Fail(key(), "result depends on an operand's attributes (or is wrong): "+msg)
										continue
									}
									if pv == nil && (o.Prec != prec || o.Mode != m) {
										c.Fail(key(), fmt.Sprintf("receiver attributes changed: %s, want prec %d mode %s", o, prec, modeName(m)))
									}
									if c.WantSample() {
										c.Sample(key() + " -> " + o.String())
									}
								}
							}
						}
					}
				}
				i := 0
				for ; i < op.arity; i++ {
					idx[i]++
					if idx[i] < len(vals) {
						break
					}
					idx[i] = 0
				}
				if i == op.arity || c.Done() {
					break
				}
			}
		},
	}
}

func aliasLayers(tier string) []Layer {
	opsList := []int{opAdd, opSub, opMul, opQuo, opFMA, opSqrt, opSet, opNeg, opAbs}
	type unit struct {
		op   int
		part []int
	}
	var units []unit
	for _, op := range opsList {
		for _, p := range partitions(opSpecs[op].Arity) {
			units = append(units, unit{op, p})
		}
	}
	precs := []uint32{1, 19, 20, 57, 1900}
	modes := []uint8{ToNearestEven, ToZero, ToNegativeInf}
	vals := aliasValues()
	return []Layer{{
		Name:   "X1-aliasing-product",
		Units:  len(units),
		Bounds: fmt.Sprintf("operations {Add,Sub,Mul,Quo,FMA,Sqrt,Set,Neg,Abs} × all aliasing partitions of {z,operands} (%d op/partition pairs) × one value per class from %d values (digits, 1..3-word edge values with word shifts, two 100-word values, ±0, ±Inf) × receiver precision %v × modes Even/ToZero/ToNegativeInf × %d receiver pre-states (when z is not an operand)", len(units), len(vals), precs, numPre),
		Run: func(c *Ctx, u int) {
			op, part := units[u].op, units[u].part
			spec := opSpecs[op]
			nclass := 0
			for _, cl := range part {
				if cl+1 > nclass {
					nclass = cl + 1
				}
			}
			zAliased := false
			for i := 1; i <= spec.Arity; i++ {
				if part[i] == 0 {
					zAliased = true
				}
			}
			noAlias := make([]int, spec.Arity+1)
			for i := range noAlias {
				noAlias[i] = i
			}
			idx := make([]int, nclass)
			for {
				ops := make([]*Opnd, spec.Arity)
				for i := range ops {
					ops[i] = vals[idx[part[i+1]]]
				}
				// skip additive combinations with absurd exponent gaps
				skip := false
				if op == opAdd || op == opSub || op == opFMA {
					lo, hi := int64(1<<40), int64(-1<<40)
					for _, o := range ops {
						if o.Form == fFinite {
							e := o.Exp - int64(len(o.Words))*DW
							if e < lo {
								lo = e
							}
							if o.Exp > hi {
								hi = o.Exp
							}
						}
					}
					skip = hi-lo > 6000
				}
				if op == opFMA && idx[len(idx)-1] >= 9 && nclass > 2 {
					// keep FMA affordable: the long values only in the first two classes
				}
				if !skip {
					for _, prec := range precs {
						fits := true
						if zAliased {
							for i := 1; i <= spec.Arity; i++ {
								if part[i] == 0 && ops[i-1].Form == fFinite && minPrecWords(ops[i-1].Words) > int64(prec) {
									fits = false
								}
							}
						}
						if !fits {
							continue
						}
						for _, m := range modes {
							pres := []int{preFresh}
							if !zAliased {
								pres = pres[:0]
								for p := 0; p < numPre; p++ {
									pres = append(pres, p)
								}
							}
							// reference: fresh receiver, no aliasing
							refOps := ops
							if zAliased {
								// the operand that is the receiver has the receiver's precision/mode
								refOps = make([]*Opnd, len(ops))
								for i := range ops {
									o := *ops[i]
									if part[i+1] == 0 {
										o.Prec, o.Mode = prec, m
									}
									refOps[i] = &o
								}
							}
							ro, rpv, rNaN, _, _ := execPart(spec, noAlias, refOps, prec, m, preFresh)
							exp := spec.Model(valsOf(ops), prec, m)
							type pv2 struct{ pre, variant int }
							var runs []pv2
							for _, pre := range pres {
								runs = append(runs, pv2{pre, 0})
							}
							if zAliased {
								runs = append(runs, pv2{preFresh, 1}, pv2{preFresh, 2})
							}
							for _, rn := range runs {
								pre := rn.pre
								if c.Skip() {
									continue
								}
								recvVariant = rn.variant
								o, pv, isNaN, after, _ := execPart(spec, part, ops, prec, m, pre)
								recvVariant = 0
								c.NonTrivial()
								c.Outcome(o.Hash())
								key := func() string {
									return fmt.Sprintf("%s %s alias=%s prec=%d mode=%s pre=%s recv-variant=%d", spec.Name, opndsString(ops), partString(part), prec, modeName(m), preNames[pre], rn.variant)
								}
								if (pv != nil) != (rpv != nil) || isNaN != rNaN {
									c.Fail(key(), fmt.Sprintf("panic behaviour differs: aliased/dirty %v, fresh/unaliased %v", pv, rpv))
									continue
								}
								if pv != nil {
									if !isNaN {
										c.Fail(key(), fmt.Sprintf("panic: %v", pv))
									}
									continue
								}
								if !sameValueAttrs(o, ro) {
									c.Fail(key(), fmt.Sprintf("result depends on aliasing / receiver history: got %s, fresh/unaliased %s (model %s)", o, ro, exp))
									continue
								}
								// the two runs must not be wrong together: compare with the model too
								if msg := judgeFull(o, pv, isNaN, exp, op != opSqrt && op != opNeg && op != opAbs); msg != "" {
									if op == opFMA {
										if cls := fmaKnownClass(ops, o, pv, isNaN, prec, m); cls != "" {
											continue
										}
									}
									c.Fail(key()+" [model]", msg)
									continue
								}
								// operands that are not the receiver are unchanged
								for i, a := range after {
									if part[i+1] != 0 {
										if msg := ops[i].CheckBuilt2(a); msg != "" {
											c.Fail(key()+" operand", msg)
										}
									}
								}
								if c.WantSample() {
									c.Sample(key() + " -> " + o.String())
								}
							}
						}
					}
				}
				i := 0
				if !zAliased {
					i = 1
				}
				for ; i < nclass; i++ {
					idx[i]++
					if idx[i] < len(vals) {
						break
					}
					idx[i] = 0
				}
				if i >= nclass || c.Done() {
					break
				}
			}
		},
	}, operandAttrLayer(tier), sharedBufferLayer(tier)}
}

// X3: operands whose mantissas are windows of ONE caller-owned word buffer (SetBitsExp keeps the
// caller's slice): two different Decimals then share a backing array, overlap, or end at the same
// capacity. The outcome depends on the operand values only, so it equals the outcome for
// independent copies, and the buffer is left as it was.
func sharedBufferLayer(tier string) Layer {
	bufs := [][]uint64{
		{3 * (BW / 10), 2*(BW/10) + 7, 5*(BW/10) + 1, BW - 1, 1234567890123456789, 2 * (BW / 10)},
		{BW - 1, BW - 1, BW - 1, BW - 1, BW - 1, BW - 1},
		{2 * (BW / 10), 3 * (BW / 10), 2 * (BW / 10), 3 * (BW / 10), 2 * (BW / 10), 3 * (BW / 10)},
	}
	type win struct{ i, n int }
	var wins []win
	for n := 1; n <= 3; n++ {
		for i := 0; i+n <= 6; i++ {
			wins = append(wins, win{i, n})
		}
	}
	type bop struct {
		name string
		do   func(z, x, y *Dec) string
	}
	obs := func(z *Dec) string { return Observe(z).String() }
	bops := []bop{
		{"Mul", func(z, x, y *Dec) string { return obs(z.Mul(x, y)) }},
		{"Quo", func(z, x, y *Dec) string { return obs(z.Quo(x, y)) }},
		{"Add", func(z, x, y *Dec) string { return obs(z.Add(x, y)) }},
		{"Sub", func(z, x, y *Dec) string { return obs(z.Sub(x, y)) }},
		{"FMA(x,y,x)", func(z, x, y *Dec) string { return obs(z.FMA(x, y, x)) }},
		{"FMA(y,y,x)", func(z, x, y *Dec) string { return obs(z.FMA(y, y, x)) }},
		{"Cmp", func(z, x, y *Dec) string { return fmt.Sprint(x.Cmp(y), y.Cmp(x)) }},
	}
	precs := []uint32{19, 40, 120}
	return Layer{
		Name:   "X3-operands-sharing-one-word-buffer",
		Units:  len(bufs) * len(wins),
		Bounds: fmt.Sprintf("x = SetBitsExp(buf[i:i+n], 1), y = SetBitsExp(buf[j:j+k], e) for every pair of the %d windows of 1..3 words of %d six-word buffers (identical, overlapping, adjacent, disjoint windows; equal and different lengths), e in {1, 0}; {Mul, Quo, Add, Sub, FMA(x,y,x), FMA(y,y,x), Cmp} into a fresh receiver of precision %v, modes Even/ToZero: outcome == outcome for independent copies of the operands; buffer unchanged", len(wins), len(bufs), precs),
		Run: func(c *Ctx, u int) {
			base := bufs[u/len(wins)]
			wx := wins[u%len(wins)]
			for _, wy := range wins {
				for _, ey := range []int64{1, 0} {
					for _, p := range precs {
						for _, m := range []uint8{ToNearestEven, ToZero} {
							for _, op := range bops {
								if c.Skip() {
									continue
								}
								c.NonTrivial()
								buf := toWords(base)
								x := new(Dec).SetBitsExp(buf[wx.i:wx.i+wx.n], 1)
								y := new(Dec).SetBitsExp(buf[wy.i:wy.i+wy.n], ey)
								x2 := new(Dec).SetBitsExp(toWords(base[wx.i:wx.i+wx.n]), 1)
								y2 := new(Dec).SetBitsExp(toWords(base[wy.i:wy.i+wy.n]), ey)
								key := fmt.Sprintf("%s x=buf[%d:%d]e1 y=buf[%d:%d]e%d buf=%s prec=%d mode=%s", op.name, wx.i, wx.i+wx.n, wy.i, wy.i+wy.n, ey, wordsKey(base), p, modeName(m))
								if obs(x) != obs(x2) || obs(y) != obs(y2) {
									c.Fail(key, fmt.Sprintf("SetBitsExp on windows of one buffer: x=%s (independent copy %s), y=%s (independent copy %s)", obs(x), obs(x2), obs(y), obs(y2)))
									continue
								}
								var got, want string
								pv, _ := protect(func() { got = op.do(fresh(p, m), x, y) })
								pv2, _ := protect(func() { want = op.do(fresh(p, m), x2, y2) })
								c.Outcome(fnvStr(0, got))
								if pv != nil || pv2 != nil || got != want {
									c.Fail(key, fmt.Sprintf("operands sharing a buffer: got %s (panic %v); independent copies of the same values: %s (panic %v)", got, pv, want, pv2))
									continue
								}
								for i, w := range buf {
									if uint64(w) != base[i] {
										c.Fail(key, fmt.Sprintf("the caller's buffer was modified at word %d", i))
										break
									}
								}
								if obs(x) != obs(x2) || obs(y) != obs(y2) {
									c.Fail(key, "an operand changed during the operation")
								}
							}
						}
					}
				}
			}
		},
	}
}
