package main

// Alphabets: small finite operand sets built from the decision boundaries of
// the reference model (ties, all-nines carries, word boundaries, range limits).

import (
	"math/big"
	"sort"
	"strings"
)

var S7 = []uint64{0, 1, BW / 10, BW/2 - 1, BW / 2, BW - 2, BW - 1}
var S9 = []uint64{0, 1, BW / 10, BW/2 - 1, BW / 2, BW - 2, BW - 1, BW/2 + 1, BW/10 - 1}
var S12 = []uint64{0, 1, BW / 10, BW/2 - 1, BW / 2, BW - 2, BW - 1, BW/2 + 1, BW/10 - 1, 2, BW / 3, BW/3 + 1}

// Sbin: words at the binary boundaries of the 64-bit registers holding decimal words (2·10^19 > 2^64, sign bit, half words, √B).
var Sbin = []uint64{1<<63 - 1, 1 << 63, 1<<63 + 1, (1<<64 - 1) - BW, (1<<64 - 1) - BW + 1, (1<<64 - 1) - BW + 2, BW - 1, 1<<32 - 1, 1 << 32, 3162277660, 3162277661}

var M6 = []uint8{0, 1, 2, 3, 4, 5}

var Eword = []int64{0, 1, 18, 19, 20, 37, 38, 39, 57}

// WVecs returns every word vector of length 1..L over S whose top word is non-zero.
func WVecs(L int, S []uint64) [][]uint64 {
	var out [][]uint64
	var rec func(cur []uint64, n int)
	rec = func(cur []uint64, n int) {
		if len(cur) == n {
			if cur[n-1] != 0 {
				out = append(out, append([]uint64(nil), cur...))
			}
			return
		}
		for _, w := range S {
			rec(append(cur, w), n)
		}
	}
	for n := 1; n <= L; n++ {
		rec(nil, n)
	}
	return out
}

// WVecsAll is WVecs but also allows a zero top word and length 0 (raw SetBitsExp input).
func WVecsAll(L int, S []uint64) [][]uint64 {
	out := [][]uint64{{}}
	var rec func(cur []uint64, n int)
	rec = func(cur []uint64, n int) {
		if len(cur) == n {
			out = append(out, append([]uint64(nil), cur...))
			return
		}
		for _, w := range S {
			rec(append(cur, w), n)
		}
	}
	for n := 1; n <= L; n++ {
		rec(nil, n)
	}
	return out
}

// DCoefs returns the coefficients 1..10^k-1 that are not multiples of 10
// (multiples of ten are the same values at another exponent).
func DCoefs(k int) []int64 {
	lim := int64(1)
	for i := 0; i < k; i++ {
		lim *= 10
	}
	var out []int64
	for c := int64(1); c < lim; c++ {
		if c%10 != 0 {
			out = append(out, c)
		}
	}
	return out
}

// DVals returns ±c×10^e for c in DCoefs(k), e in -E..E (distinct values).
func DVals(k int, E int64, signs bool, prec uint32, mode uint8) []*Opnd {
	var out []*Opnd
	for _, c := range DCoefs(k) {
		for e := -E; e <= E; e++ {
			out = append(out, mkInt64(c, e, prec, mode))
			if signs {
				out = append(out, mkInt64(-c, e, prec, mode))
			}
		}
	}
	return out
}

// RunLengthStrings returns digit strings d1 c^j d2 (and d1 c^j) for c in {0,9}:
// ties, near ties and all-nines carries at every position up to J.
func RunLengthStrings(J int) []string {
	seen := map[string]bool{}
	var out []string
	add := func(s string) {
		s = strings.TrimRight(s, "0")
		if s == "" || seen[s] {
			return
		}
		seen[s] = true
		out = append(out, s)
	}
	for j := 0; j <= J; j++ {
		for _, d1 := range []string{"1", "2", "4", "5", "9", "15", "25", "99", "49"} {
			for _, c := range []string{"0", "9"} {
				run := strings.Repeat(c, j)
				for _, d2 := range []string{"", "1", "4", "5", "6", "9", "49", "50", "51"} {
					add(d1 + run + d2)
				}
			}
		}
	}
	sort.SliceStable(out, func(i, j int) bool { return len(out[i]) < len(out[j]) })
	return out
}

func mustInt(s string) *big.Int {
	z, ok := new(big.Int).SetString(s, 10)
	if !ok {
		panic("mustInt: " + s)
	}
	return z
}

// BigVecs returns n-word vectors "uniform edge word with <= 2 exceptions".
func BigVecs(n int, S []uint64, full bool) [][]uint64 {
	var out [][]uint64
	pos := []int{n - 1, 0, n / 2}
	if full {
		pos = append(pos, n/2-1, n/2+1, 1, n-2)
	}
	seen := map[string]bool{}
	add := func(v []uint64) {
		if v[n-1] == 0 {
			return
		}
		var sb strings.Builder
		for _, w := range v {
			sb.WriteString(big.NewInt(0).SetUint64(w).String())
			sb.WriteByte(',')
		}
		k := sb.String()
		if seen[k] {
			return
		}
		seen[k] = true
		out = append(out, v)
	}
	for _, u := range S {
		base := make([]uint64, n)
		for i := range base {
			base[i] = u
		}
		add(append([]uint64(nil), base...))
		for _, p := range pos {
			if p < 0 || p >= n {
				continue
			}
			for _, e := range S {
				if e == u {
					continue
				}
				v := append([]uint64(nil), base...)
				v[p] = e
				add(v)
				if full && p == n-1 {
					for _, e2 := range S {
						if e2 == u {
							continue
						}
						v2 := append([]uint64(nil), v...)
						v2[0] = e2
						add(v2)
					}
				}
			}
		}
	}
	return out
}
