package main

// C01 / C02: Add, Sub, Mul, Quo, Set, SetPrec, Neg, Abs against the exact model.
// One enumeration, two judges: C01 compares value fields, C02 compares Acc()
// with sign(stored − exact) computed from the *observed* stored value.

import (
	"fmt"
	"math"
	"math/big"
	"math/bits"
	"time"

	"github.com/db47h/decimal"
)

const (
	opAdd = iota
	opSub
	opMul
	opQuo
	opSet
	opSetPrec
	opNeg
	opAbs
	opFMA
	opSqrt
	opCopy
)

var opNames = []string{"Add", "Sub", "Mul", "Quo", "Set", "SetPrec", "Neg", "Abs", "FMA", "Sqrt", "Copy"}

// protect runs f and classifies a panic: nil (no panic), ErrNaN, or other.
func protect(f func()) (pv interface{}, isNaN bool) {
	defer func() {
		if r := recover(); r != nil {
			pv = r
			_, isNaN = r.(decimal.ErrNaN)
		}
	}()
	f()
	return nil, false
}

func fresh(prec uint32, mode uint8) *Dec {
	z := new(Dec)
	z.SetPrec(uint(prec)).SetMode(decimal.RoundingMode(mode))
	return z
}

func doBin(op int, z, x, y *Dec) {
	switch op {
	case opAdd:
		z.Add(x, y)
	case opSub:
		z.Sub(x, y)
	case opMul:
		z.Mul(x, y)
	case opQuo:
		z.Quo(x, y)
	default:
		panic("doBin")
	}
}

func modelBin(op int, x, y Val, prec uint32, mode uint8) RRes {
	switch op {
	case opAdd:
		return ModelAdd(x, y, prec, mode)
	case opSub:
		return ModelSub(x, y, prec, mode)
	case opMul:
		return ModelMul(x, y, prec, mode)
	case opQuo:
		return ModelQuo(x, y, prec, mode)
	}
	panic("modelBin")
}

// exactBin returns the exact result of a finite×finite operation as num/den×10^e
// (den nil for 1); zero result is reported by ok=false.
type exactRes struct {
	neg      bool
	num, den *big.Int
	e10      int64
	zero     bool
}

func exactBin(op int, x, y Val) exactRes {
	switch op {
	case opAdd, opSub:
		yy := y
		if op == opSub {
			yy = negVal(y)
		}
		s := addExact(x, yy)
		if s.Form == fZero {
			return exactRes{zero: true}
		}
		return exactRes{neg: s.Neg, num: s.Coef, e10: s.E10}
	case opMul:
		p := mulExact(x, y)
		return exactRes{neg: p.Neg, num: p.Coef, e10: p.E10}
	case opQuo:
		return exactRes{neg: x.Neg != y.Neg, num: x.Coef, den: y.Coef, e10: x.E10 - y.E10}
	}
	panic("exactBin")
}

// cmpStoredExact returns sign(stored − exact) where exact = ±num/den×10^e.
func cmpStoredExact(o Obs, ex exactRes) int8 {
	st := o.Val()
	if ex.zero {
		return int8(CmpVal(st, Val{Form: fZero}))
	}
	if st.Form == fInf {
		if st.Neg {
			return -1
		}
		return 1
	}
	if st.Form == fZero {
		if ex.neg {
			return 1
		}
		return -1
	}
	if st.Neg != ex.neg {
		if st.Neg {
			return -1
		}
		return 1
	}
	// compare magnitudes: st.Coef×10^st.E10 vs num/den×10^e  <=>  st.Coef×den×10^(st.E10−e) vs num
	a := new(big.Int).Set(st.Coef)
	if ex.den != nil {
		a.Mul(a, ex.den)
	}
	b := ex.num
	d := st.E10 - ex.e10
	if d >= 0 {
		a.Mul(a, p10(d))
	} else {
		b = new(big.Int).Mul(b, p10(-d))
	}
	c := a.Cmp(b)
	if st.Neg {
		c = -c
	}
	return int8(c)
}

// matchValue: fast comparison of an observation with an expected result.
func matchValue(o Obs, r RRes) bool {
	if o.Form != r.Form || o.Neg != r.Neg {
		return false
	}
	if o.Form != fFinite {
		return true
	}
	if len(o.Words) == 0 {
		return false
	}
	dq := ndigits(r.Coef)
	if int64(o.Exp) != dq+r.E10 {
		return false
	}
	a := wordsToInt(o.Words)
	da := int64(len(o.Words)) * DW
	switch {
	case da > dq:
		return a.Cmp(new(big.Int).Mul(r.Coef, p10(da-dq))) == 0
	case da < dq:
		return new(big.Int).Mul(a, p10(dq-da)).Cmp(r.Coef) == 0
	}
	return a.Cmp(r.Coef) == 0
}

type judge int

const (
	judgeValue judge = iota // C01
	judgeAcc                // C02
	judgeAttr               // C09: only the receiver's precision and rounding mode after the call
)

// attrMsg: the receiver must have precision prec (the caller passes the documented
// effective precision when the receiver's was 0) and keep its rounding mode.
func attrMsg(o Obs, prec uint32, mode uint8) string {
	if o.Prec != prec || o.Mode != mode {
		return fmt.Sprintf("receiver attributes after the call: precision %d mode %s, want precision %d mode %s (%s)", o.Prec, modeName(o.Mode), prec, modeName(mode), o)
	}
	return ""
}

// binCase runs one finite/finite (or special) binary case and judges it.
func binCase(c *Ctx, j judge, op int, xo, yo *Opnd, x, y *Dec, prec uint32, mode uint8, exp RRes, ex *exactRes) {
	z := fresh(prec, mode)
	pv, isNaN := protect(func() { doBin(op, z, x, y) })
	key := func() string {
		return fmt.Sprintf("%s x=%s y=%s prec=%d mode=%s", opNames[op], xo, yo, prec, modeName(mode))
	}
	gt := func() string {
		return goTestArith(opNames[op], []string{"x", "y"}, []*Opnd{xo, yo}, prec, mode, exp, j == judgeAcc)
	}
	if pv != nil {
		if exp.NaN && isNaN {
			return
		}
		c.FailT(key(), fmt.Sprintf("panic: %v (expected %s)", pv, exp), gt)
		return
	}
	if exp.NaN {
		c.Fail(key(), "expected ErrNaN panic, got none")
		return
	}
	o := Observe(z)
	c.Outcome(o.Hash())
	if msg := Canonical(o); msg != "" {
		c.Fail(key(), "result not canonical (oracle not applicable): "+msg)
		return
	}
	ok := matchValue(o, exp)
	if exp.Acc != 0 {
		c.NonTrivial()
	}
	switch j {
	case judgeAttr:
		if msg := attrMsg(o, prec, mode); msg != "" {
			c.Fail(key(), msg)
		}
	case judgeValue:
		if !ok {
			c.FailT(key(), cmpValue(o, exp), gt)
		}
	case judgeAcc:
		want := exp.Acc
		if !ok {
			if ex == nil {
				// specials: value mismatch is C01/C04's business; acc of specials is Exact
				want = 0
			} else {
				want = cmpStoredExact(o, *ex)
			}
		}
		if o.Acc != want {
			c.FailT(key(), fmt.Sprintf("Acc() = %d but sign(stored − exact) = %d; stored %s, model %s", o.Acc, want, o, exp), gt)
		}
	}
	if c.WantSample() {
		c.Sample(fmt.Sprintf("%s -> %s", key(), o))
	}
}

// binSweep: for operands x,y run all ops × precs × modes.
func binSweep(c *Ctx, j judge, ops []int, xo, yo *Opnd, x, y *Dec, precs []uint32, modes []uint8) {
	for _, op := range ops {
		if xo.Form != fFinite || yo.Form != fFinite {
			for _, p := range precs {
				for _, m := range modes {
					if c.Skip() {
						continue
					}
					binCase(c, j, op, xo, yo, x, y, p, m, modelBin(op, xo.V, yo.V, p, m), nil)
				}
			}
			continue
		}
		ex := exactBin(op, xo.V, yo.V)
		for _, p := range precs {
			var pr Prep
			if !ex.zero {
				pr = PrepRat(ex.num, ex.den, ex.e10, p)
			}
			for _, m := range modes {
				if c.Skip() {
					continue
				}
				var exp RRes
				if ex.zero {
					yn := yo.Neg
					if op == opSub {
						yn = !yn
					}
					exp = RRes{Form: fZero, Neg: zeroSumNeg(xo.Neg, yn, m)}
				} else {
					exp = pr.Apply(ex.neg, m)
				}
				binCase(c, j, op, xo, yo, x, y, p, m, exp, &ex)
			}
		}
	}
}

// unaryCase: Set, SetPrec, Neg, Abs.
func unaryCase(c *Ctx, j judge, op int, xo *Opnd, prec uint32, mode uint8) {
	if j == judgeAcc && (op == opNeg || op == opAbs) {
		return // C02 does not list Neg/Abs
	}
	if c.Skip() {
		return
	}
	var z *Dec
	var exp RRes
	key := func() string {
		return fmt.Sprintf("%s x=%s prec=%d mode=%s", opNames[op], xo, prec, modeName(mode))
	}
	var pv interface{}
	switch op {
	case opSet:
		x := xo.Build()
		z = fresh(prec, mode)
		pv, _ = protect(func() { z.Set(x) })
		exp = RoundVal(xo.V, prec, mode)
	case opNeg:
		x := xo.Build()
		z = fresh(prec, mode)
		pv, _ = protect(func() { z.Neg(x) })
		exp = RoundVal(xo.V, prec, mode) // round, then change the sign (statement of C01)
		exp.Neg = !exp.Neg
		exp.Acc = -exp.Acc
	case opAbs:
		x := xo.Build()
		z = fresh(prec, mode)
		pv, _ = protect(func() { z.Abs(x) })
		exp = RoundVal(xo.V, prec, mode)
		if exp.Neg {
			exp.Neg = false
			exp.Acc = -exp.Acc
		}
	case opSetPrec:
		// the receiver itself holds x with x's mode := mode
		xm := *xo
		xm.Mode = mode
		z = xm.Build()
		pv, _ = protect(func() { z.SetPrec(uint(prec)) })
		exp = RoundVal(xo.V, prec, mode)
	}
	if pv != nil {
		c.Fail(key(), fmt.Sprintf("panic: %v", pv))
		return
	}
	o := Observe(z)
	c.Outcome(o.Hash())
	if msg := Canonical(o); msg != "" {
		c.Fail(key(), "result not canonical: "+msg)
		return
	}
	if exp.Acc != 0 {
		c.NonTrivial()
	}
	ok := matchValue(o, exp)
	switch j {
	case judgeAttr:
		if msg := attrMsg(o, prec, mode); msg != "" {
			c.Fail(key(), msg)
		}
	case judgeValue:
		if !ok {
			c.Fail(key(), cmpValue(o, exp))
		}
	case judgeAcc:
		want := exp.Acc
		if !ok {
			want = int8(CmpVal(o.Val(), xo.V))
		}
		if o.Acc != want {
			c.Fail(key(), fmt.Sprintf("Acc() = %d but sign(stored − exact) = %d; stored %s, model %s", o.Acc, want, o, exp))
		}
	}
	if c.WantSample() {
		c.Sample(fmt.Sprintf("%s -> %s", key(), o))
	}
}

var allBinOps = []int{opAdd, opSub, opMul, opQuo}

func signed(v []*Opnd) []*Opnd {
	var out []*Opnd
	for _, a := range v {
		out = append(out, a)
		b := *a
		b.Neg = !a.Neg
		b.V.Neg = b.Neg
		out = append(out, &b)
	}
	return out
}

func buildAll(v []*Opnd) []*Dec {
	out := make([]*Dec, len(v))
	for i, a := range v {
		out[i] = a.Build()
		if msg := a.CheckBuilt(out[i]); msg != "" {
			panic("operand construction: " + msg)
		}
	}
	return out
}

func arithLayers(j judge, tier string) []Layer {
	thorough := tier == "thorough"
	var layers []Layer

	// L1: digit-exhaustive
	{
		k, E := 2, int64(2)
		precs := []uint32{1, 2, 3, 4}
		if thorough {
			k, E = 3, 1
			precs = []uint32{1, 2, 3, 4, 5, 7}
		}
		var xs []*Opnd
		var xd []*Dec
		layers = append(layers, Layer{
			Name:   "L1-digits",
			Units:  len(DCoefs(k)) * int(2*E+1) * 2,
			Bounds: fmt.Sprintf("x,y in ±D(%d)×10^[-%d..%d], ops Add/Sub/Mul/Quo, prec %v, 6 modes", k, E, E, precs),
			Run: func(c *Ctx, u int) {
				if xs == nil {
					xs = DVals(k, E, true, 34, 0)
					xd = buildAll(xs)
				}
				for yi := range xs {
					if c.Done() {
						return
					}
					binSweep(c, j, allBinOps, xs[u], xs[yi], xd[u], xd[yi], precs, M6)
				}
			},
		})
	}
	// L2: word-edge operands with sub-word and multi-word alignment shifts
	{
		S, L := S7, 2
		if thorough {
			S, L = S9, 2
		}
		vecs := WVecs(L, S)
		precs := []uint32{1, 18, 19, 20, 37, 38, 39, 57}
		var xs []*Opnd
		var xd []*Dec
		layers = append(layers, Layer{
			Name:   "L2-wordedge",
			Units:  len(vecs) * 2,
			Bounds: fmt.Sprintf("x,y in ±W(%d,S%d) (incl. low/interior zero words), y shifted by %v digits, ops 4, prec %v, 6 modes", L, len(S), Eword, precs),
			Run: func(c *Ctx, u int) {
				if xs == nil {
					var base []*Opnd
					for _, v := range vecs {
						base = append(base, mkWords(false, v, 0, 0, 0))
					}
					xs = signed(base)
					xd = buildAll(xs)
				}
				for yi := range xs {
					for _, sh := range Eword {
						if c.Done() {
							return
						}
						yo := *xs[yi]
						yo.Exp -= sh
						yo.V.E10 -= sh
						y := yo.Build()
						binSweep(c, j, allBinOps, xs[u], &yo, xd[u], y, precs, M6)
					}
				}
			},
		})
	}
	// L12: every digit alignment 0..38 between the operands of Add/Sub (L2 takes the word-boundary ones):
	// the shift kernels split words at every digit position
	{
		vecs := WVecs(2, []uint64{0, 1, BW / 10, BW / 2, BW - 1, 8123456789012999999})
		var xs []*Opnd
		var xd []*Dec
		layers = append(layers, Layer{
			Name:   "L12-every-digit-alignment",
			Units:  len(vecs) * 2,
			Bounds: "x,y in ±W(2,{0,1,10^18,B/2,B-1,8123456789012999999}), y shifted by every number of digits 0..38, Add/Sub, prec {19,20,38,58}, 6 modes",
			Run: func(c *Ctx, u int) {
				if xs == nil {
					var base []*Opnd
					for _, v := range vecs {
						base = append(base, mkWords(false, v, 0, 0, 0))
					}
					xs = signed(base)
					xd = buildAll(xs)
				}
				for yi := range xs {
					for sh := int64(0); sh <= 38; sh++ {
						if c.Done() {
							return
						}
						yo := *xs[yi]
						yo.Exp -= sh
						yo.V.E10 -= sh
						binSweep(c, j, []int{opAdd, opSub}, xs[u], &yo, xd[u], yo.Build(), []uint32{19, 20, 38, 58}, M6)
					}
				}
			},
		})
	}
	// L14: SetPrec / Set / Neg on variables whose accuracy is left over from an earlier inexact
	// operation, also ±Inf from an overflow and ±0 from an underflow or from SetPrec(0)
	{
		type src struct {
			name string
			mk   func(m uint8) *Dec
		}
		ovf := func(neg, under bool) func(m uint8) *Dec {
			return func(m uint8) *Dec {
				e := int64(MaxExp)
				if under {
					e = MinExp
				}
				b := mkInt64(1, 0, 5, 0)
				b.Exp, b.V.E10 = e, e-DW
				y := mkInt64(3, 0, 5, 0)
				if neg {
					y.Neg, y.V.Neg = true, true
				}
				z := fresh(7, m)
				z.Mul(b.Build(), new(Dec).Mul(y.Build(), b.Build()))
				return z
			}
		}
		srcs := []src{
			{"1.2345 rounded to 3 digits (Below)", func(m uint8) *Dec { z, _ := fresh(3, m).SetString("1.2345"); return z }},
			{"-1.2345 rounded to 3 digits (Above)", func(m uint8) *Dec { z, _ := fresh(3, m).SetString("-1.2345"); return z }},
			{"2/3 at 20 digits (Above)", func(m uint8) *Dec { return fresh(20, m).Quo(new(Dec).SetInt64(2), new(Dec).SetInt64(3)) }},
			{"+Inf by overflow", ovf(false, false)}, {"-Inf by overflow", ovf(true, false)},
			{"+0 by underflow", ovf(false, true)}, {"-0 by underflow", ovf(true, true)},
			{"+0 by SetPrec(0) of 7", func(m uint8) *Dec { return new(Dec).SetMode(decimal.RoundingMode(m)).SetInt64(7).SetPrec(0) }},
			{"-0 by SetPrec(0) of -7", func(m uint8) *Dec { return new(Dec).SetMode(decimal.RoundingMode(m)).SetInt64(-7).SetPrec(0) }},
		}
		precs := []uint{0, 1, 2, 3, 7, 19, 20, 21, 40}
		layers = append(layers, Layer{
			Name:   "L14-leftover-accuracy",
			Units:  len(srcs),
			Bounds: fmt.Sprintf("z.SetPrec(p) in place, w.Set(z), w.Neg(z), w.Abs(z) for z one of %d variables whose Acc() is not Exact (rounded finite values, ±Inf by overflow, ±0 by underflow, ±0 by SetPrec(0)) and p in %v, receiver precision {0, 2, 30}, 6 modes: the new accuracy describes this operation only", len(srcs), precs),
			Run: func(c *Ctx, u int) {
				s := srcs[u]
				check := func(key string, z *Dec, pv interface{}, exp RRes, exact Val, prec uint32, mode uint8) {
					if pv != nil {
						c.Fail(key, fmt.Sprintf("panic: %v", pv))
						return
					}
					o := Observe(z)
					c.Outcome(o.Hash())
					if msg := Canonical(o); msg != "" {
						c.Fail(key, "result not canonical: "+msg)
						return
					}
					ok := matchValue(o, exp)
					switch j {
					case judgeAttr:
						if msg := attrMsg(o, prec, mode); msg != "" {
							c.Fail(key, msg)
						}
					case judgeValue:
						if !ok {
							c.Fail(key, cmpValue(o, exp))
						}
					case judgeAcc:
						want := exp.Acc
						if !ok {
							want = int8(CmpVal(o.Val(), exact))
						}
						if o.Acc != want {
							c.Fail(key, fmt.Sprintf("Acc() = %d but sign(stored − exact) = %d; stored %s, model %s", o.Acc, want, o, exp))
						}
					}
				}
				for _, m := range M6 {
					z0 := s.mk(m)
					if z0.Acc() == 0 {
						c.Fail("L14 source "+s.name, "construction did not leave a non-Exact accuracy")
						return
					}
					v0 := Observe(z0).Val() // (depends on the mode for the rounded finite sources)
					zprec := Observe(z0).Prec
					for _, p := range precs {
						if c.Skip() {
							continue
						}
						c.NonTrivial()
						z := s.mk(m) // built in mode m: SetMode would reset the accuracy
						pv, _ := protect(func() { z.SetPrec(p) })
						key := fmt.Sprintf("SetPrec(%d) on %s mode=%s", p, s.name, modeName(m))
						var exp RRes
						if p == 0 {
							// documented: finite values become ±0 (accuracy: the sign of what was lost), infinities stay
							exp = RRes{Form: v0.Form, Neg: v0.Neg}
							if v0.Form == fFinite {
								exp.Form = fZero
								exp.Acc = 1
								if !v0.Neg {
									exp.Acc = -1
								}
							}
						} else {
							exp = RoundVal(v0, uint32(p), m)
						}
						check(key, z, pv, exp, v0, uint32(p), m)
					}
					for _, rp := range []uint32{0, 2, 30} {
						for _, op := range []int{opSet, opNeg, opAbs} {
							if j == judgeAcc && op != opSet {
								continue // C02 does not list Neg/Abs
							}
							if c.Skip() {
								continue
							}
							c.NonTrivial()
							z := s.mk(m)
							w := buildPre(preInexact, rp, m)
							p := rp
							if p == 0 {
								p = zprec
							}
							exp := RoundVal(v0, p, m) // Neg/Abs: round, then set the sign (statement of C01)
							exact := v0
							var pv interface{}
							switch op {
							case opSet:
								pv, _ = protect(func() { w.Set(z) })
							case opNeg:
								pv, _ = protect(func() { w.Neg(z) })
								exp.Neg, exp.Acc, exact.Neg = !exp.Neg, -exp.Acc, !exact.Neg
							case opAbs:
								pv, _ = protect(func() { w.Abs(z) })
								if exp.Neg {
									exp.Neg, exp.Acc = false, -exp.Acc
								}
								exact.Neg = false
							}
							check(fmt.Sprintf("%s of %s into prec=%d mode=%s", opNames[op], s.name, rp, modeName(m)), w, pv, exp, exact, p, m)
						}
					}
				}
			},
		})
	}
	// L13: long operands that are equal except for one word, at every index: the difference cancels down
	// to that word (the magnitude comparison and the borrow chain are decided in the middle)
	{
		lens := []int{3, 4, 5, 7, 8, 9, 12, 13, 16, 17, 32, 33}
		layers = append(layers, Layer{
			Name:   "L13-long-operands-differing-in-one-word",
			Units:  len(lens),
			Bounds: fmt.Sprintf("x = n words (n in %v) of one repeated word {B−2, 3333333333333333333, 10^18, 0 below a top word 10^18}, y = x with one word ±1 at every index; Sub(x,y), Sub(y,x), Add(x,−y), Add(−x,y) at precision {19, 19n}, modes Even/ToZero/ToNegativeInf", lens),
			Run: func(c *Ctx, u int) {
				n := lens[u]
				for _, w := range []uint64{BW - 2, 3333333333333333333, BW / 10, 0} {
					base := make([]uint64, n)
					for i := range base {
						base[i] = w
					}
					if w < BW/10 {
						base[n-1] = BW / 10
					}
					xo := mkWords(false, base, 2, 0, 0)
					nxo := mkWords(true, base, 2, 0, 0)
					x, nx := xo.Build(), nxo.Build()
					for i := 0; i < n; i++ {
						for _, d := range []uint64{1, ^uint64(0)} {
							if c.Done() {
								return
							}
							if base[i] == 0 && d != 1 || i == n-1 && base[i]+d < BW/10 {
								continue
							}
							v := append([]uint64(nil), base...)
							v[i] += d
							yo := mkWords(false, v, 2, 0, 0)
							nyo := mkWords(true, v, 2, 0, 0)
							y, ny := yo.Build(), nyo.Build()
							precs := []uint32{19, uint32(19 * n)}
							ms := []uint8{ToNearestEven, ToZero, ToNegativeInf}
							binSweep(c, j, []int{opSub}, xo, yo, x, y, precs, ms)
							binSweep(c, j, []int{opSub}, yo, xo, y, x, precs, ms)
							binSweep(c, j, []int{opAdd}, xo, nyo, x, ny, precs, ms)
							binSweep(c, j, []int{opAdd}, nxo, yo, nx, y, precs, ms)
						}
					}
				}
			},
		})
	}
	// L11: the one non-zero discarded digit sits in a single low word, at every word position of a long
	// mantissa (the sticky scan must look at every word), all other discarded digits zero
	{
		lens := []int{3, 4, 5, 6, 7, 8, 9, 10, 12, 13, 16, 17, 20}
		layers = append(layers, Layer{
			Name:   "L11-sticky-word-position",
			Units:  len(lens),
			Bounds: fmt.Sprintf("x = n-word mantissa (n in %v): kept words + rounding word {0, 5·10^18} + zero words with one word = 1 or 10^18 at every position below; Set / SetPrec / Neg / Add(x, +0) / Quo(x, 1) / Mul(x, 1) to precision {19, 20, 38} (last kept digit even and odd), 6 modes", lens),
			Run: func(c *Ctx, u int) {
				n := lens[u]
				one := mkInt64(1, 0, 5, 0)
				zero := mkSpecial(fZero, false, 5, 0)
				for pos := 0; pos < n-2; pos++ {
					for _, sw := range []uint64{1, BW / 10} {
						for _, rw := range []uint64{0, BW / 2} {
							for _, last := range []uint64{BW/10 + 2, BW/10 + 3} {
								for _, neg := range []bool{false, true} {
									if c.Done() {
										return
									}
									w := make([]uint64, n)
									w[n-1], w[n-2], w[pos] = last, rw, sw
									if pos == n-2 {
										continue
									}
									xo := mkWords(neg, w, 3, 0, ToNearestAway)
									x := xo.Build()
									for _, p := range []uint32{19, 20} {
										for _, m := range M6 {
											unaryCase(c, j, opSet, xo, p, m)
											unaryCase(c, j, opSetPrec, xo, p, m)
											unaryCase(c, j, opNeg, xo, p, m)
										}
									}
									binSweep(c, j, []int{opAdd}, xo, zero, x, zero.Build(), []uint32{19, 20}, M6)
									binSweep(c, j, []int{opQuo, opMul}, xo, one, x, one.Build(), []uint32{19, 20}, M6)
								}
							}
						}
					}
				}
			},
		})
	}
	// L10: operands made of words at the binary boundaries of the registers (public-API counterpart of C07 K3)
	{
		vecs := WVecs(2, Sbin)
		var xs []*Opnd
		var xd []*Dec
		precs := []uint32{19, 20, 38, 57}
		layers = append(layers, Layer{
			Name:   "L10-binary-boundary-words",
			Units:  len(vecs),
			Bounds: fmt.Sprintf("x,y in W(2,Sbin): 1–2-word mantissas over {2^63−1, 2^63, 2^63+1, 2^64−B−1.., B−1, 2^32−1, 2^32, ⌊√B⌋, ⌈√B⌉} (%d vectors, left-normalised), same exponent and y shifted by one word, y also negated; ops 4; prec %v; modes Even/ToZero/AwayFromZero", len(vecs), precs),
			Run: func(c *Ctx, u int) {
				if xs == nil {
					for _, v := range vecs {
						xs = append(xs, mkWords(false, v, 0, 0, 0))
					}
					xd = buildAll(xs)
				}
				for yi := range xs {
					for _, sh := range []int64{0, 19} {
						for _, neg := range []bool{false, true} {
							if c.Done() {
								return
							}
							yo := *xs[yi]
							yo.Exp -= sh
							yo.V.E10 -= sh
							yo.Neg, yo.V.Neg = neg, neg
							y := yo.Build()
							binSweep(c, j, allBinOps, xs[u], &yo, xd[u], y, precs, []uint8{ToNearestEven, ToZero, AwayFromZero})
						}
					}
				}
			},
		})
	}
	// L3: run-length digit strings, unary operations and near-tie additions
	{
		J := 24
		if thorough {
			J = 45
		}
		strs := RunLengthStrings(J)
		layers = append(layers, Layer{
			Name:   "L3-runlength",
			Units:  len(strs),
			Bounds: fmt.Sprintf("x = d1 c^j d2 (c in {0,9}, j <= %d; ties, near-ties, all-nines) × ±; Set/SetPrec/Neg/Abs at every prec 1..len+1, 6 modes (for a third of the cases also with the value held in a mantissa with 1–2 trailing zero words); x ± (1 unit at the rounding position, sticky-only addend) via Add/Sub", J),
			Run: func(c *Ctx, u int) {
				s := strs[u]
				coef := mustInt(s)
				L := uint32(len(s))
				for _, neg := range []bool{false, true} {
					xo := mkCoef(neg, coef, -int64(len(s))+1, L+2, 0)
					x := xo.Build()
					// the same value held in a mantissa with 1–2 trailing zero words (computed at a larger precision)
					var xz []*Opnd
					for _, zw := range []int{1, 2} {
						o := *xo
						o.Words = append(make([]uint64, zw), xo.Words...)
						o.Prec = uint32(len(o.Words) * DW)
						xz = append(xz, &o)
					}
					for p := uint32(1); p <= L+1; p++ {
						for _, m := range M6 {
							for _, op := range []int{opSet, opSetPrec, opNeg, opAbs} {
								unaryCase(c, j, op, xo, p, m)
								if u%3 == int(p)%3 {
									unaryCase(c, j, op, xz[int(p)%2], p, m)
								}
							}
						}
						if c.Done() {
							return
						}
						// addends: one unit at digit position p (the rounding digit) and a sticky-only addend
						for _, yn := range []bool{false, true} {
							for _, ye := range []int64{-int64(p), -int64(p) - 1, -int64(L) - 40} {
								yo := mkInt64(1, ye+1, 34, 0)
								yo.Neg, yo.V.Neg = yn, yn
								y := yo.Build()
								binSweep(c, j, []int{opAdd, opSub}, xo, yo, x, y, []uint32{p}, M6)
							}
						}
					}
				}
			},
		})
	}
	// L4: constructive quotients: x = q·y (exact), q·y ± 1
	{
		qv := WVecs(2, S7)
		yv := WVecs(3, S9)
		if thorough {
			qv = WVecs(3, S9)
		}
		// divisors whose leading word is ⌊B/k⌋ or ⌈B/k⌉ (where Knuth's normalisation factor changes), followed by large / small digits
		for k := uint64(2); k <= 12; k++ {
			for _, top := range []uint64{BW / k, BW/k + 1, BW/k - 1} {
				for _, low := range []uint64{BW - 1, 0, BW / 2} {
					yv = append(yv, []uint64{low, top}, []uint64{low, low, top})
				}
			}
		}
		layers = append(layers, Layer{
			Name:   "L4-exactquo",
			Units:  len(yv),
			Bounds: fmt.Sprintf("Quo(x,y) with x = q·y + r, r in {0,+1,-1}; q in W(%d words), y in W(3,S9) ∪ {2–3-word divisors whose leading word is ⌊B/k⌋, ⌊B/k⌋±1 for k = 2..12}; prec in {digits(q), digits(q)+1, 57, 76}; 6 modes", len(qv[len(qv)-1])),
			Run: func(c *Ctx, u int) {
				yo := mkWords(false, yv[u], 0, 0, 0)
				y := yo.Build()
				yi := wordsToInt(yv[u])
				for _, q := range qv {
					if c.Done() {
						return
					}
					qi := wordsToInt(q)
					prod := new(big.Int).Mul(qi, yi)
					dq := uint32(ndigits(qi))
					for _, r := range []int64{0, 1, -1} {
						xi := new(big.Int).Add(prod, big.NewInt(r))
						if xi.Sign() <= 0 {
							continue
						}
						xo := mkCoef(false, xi, 0, uint32(ndigits(xi))+19, 0)
						x := xo.Build()
						precs := []uint32{dq, dq + 1, 57, 76}
						if dq > 1 {
							precs = append(precs, dq-1)
						}
						// y as an integer: value wordsToInt(yv)·10^0
						yo2 := *yo
						yo2.V = Val{Form: fFinite, Coef: yo.V.Coef, E10: yo.V.E10}
						binSweep(c, j, []int{opQuo}, xo, &yo2, x, y, precs, M6)
					}
				}
			},
		})
	}
	// L7: long sparse dividends (more dividend words than the quotient needs)
	{
		var qs, ys []*big.Int
		for _, c := range []int64{1, 2, 25, 4, 5, 99, 125} {
			qs = append(qs, big.NewInt(c))
		}
		for _, v := range WVecs(1, S7) {
			qs = append(qs, wordsToInt(v))
		}
		for _, c := range []int64{1, 2, 4, 5, 8, 3, 7, 16, 99} {
			ys = append(ys, big.NewInt(c))
		}
		for _, v := range WVecs(2, S7) {
			ys = append(ys, wordsToInt(v))
		}
		layers = append(layers, Layer{
			Name:   "L7-longdividend",
			Units:  len(ys),
			Bounds: "Quo(x,y), x = q·y·10^(19k) + δ with k in 1..3 and δ in {0, 1, 10^(19k)−1, 5·10^(19k−1)}: the dividend has up to 3 more words than prec+1 quotient digits need (plus 0–2 trailing zero words in its mantissa) and the retained words divide exactly; q in 7 ints ∪ W(1,S7), y in 9 ints ∪ W(2,S7); prec {1,2,3,digits(q),digits(q)+1,19,20,38}; 6 modes",
			Run: func(c *Ctx, u int) {
				yi := ys[u]
				yo := mkCoef(false, yi, 0, uint32(ndigits(yi))+19, 0)
				y := yo.Build()
				for _, qi := range qs {
					dq := uint32(ndigits(qi))
					prod := new(big.Int).Mul(qi, yi)
					for k := int64(1); k <= 3; k++ {
						if c.Done() {
							return
						}
						sh := p10(19 * k)
						for di := 0; di < 4; di++ {
							xi := new(big.Int).Mul(prod, sh)
							switch di {
							case 1:
								xi.Add(xi, big1)
							case 2:
								xi.Add(xi, new(big.Int).Sub(sh, big1))
							case 3:
								xi.Add(xi, new(big.Int).Mul(big.NewInt(5), p10(19*k-1)))
							}
							xo := mkCoef(false, xi, -7, uint32(ndigits(xi))+1, 0)
							x := xo.Build()
							binSweep(c, j, []int{opQuo}, xo, yo, x, y, []uint32{1, 2, 3, dq, dq + 1, 19, 20, 38}, M6)
							// the same dividend held in a mantissa with trailing zero words (as exact products,
							// quotients and values computed at a larger precision have)
							for _, zw := range []int{1, 2} {
								xz := *xo
								xz.Words = append(make([]uint64, zw), xo.Words...)
								xz.Prec = uint32(len(xz.Words) * DW)
								binSweep(c, j, []int{opQuo}, &xz, yo, xz.Build(), y, []uint32{1, 3, dq, 19, 20}, M6)
							}
						}
					}
				}
			},
		})
	}
	// L8: large operands through the public API (Karatsuba multiplication, recursive division)
	{
		vals := largeOperands(thorough)
		layers = append(layers, Layer{
			Name:   "L8-large-operands",
			Units:  len(vals),
			Bounds: fmt.Sprintf("Mul(x,y), Quo(x,y), Quo(x·y+r, y) (r in {0,1}) and Quo(short, y) over %d operands of 31..130 words (200 thorough): uniform edge words with top/bottom exceptions, 10^A−1 (all nines), 10^B+1, sparse '1 0…0 3 0…0 1' vectors, and 1–2-word partners; precision in {20, half, full, full+1 of the longer operand}; modes Even/ToZero/AwayFromZero", len(vals)),
			Run: func(c *Ctx, u int) {
				xo := vals[u]
				x := xo.Build()
				modes := []uint8{ToNearestEven, ToZero, AwayFromZero}
				for yi, yo := range vals {
					if c.Done() {
						return
					}
					// all pairs with the short partners, every 3rd pair among the long ones
					if len(xo.Words) > 2 && len(yo.Words) > 2 && (u+yi)%3 != 0 {
						continue
					}
					y := yo.Build()
					L := len(xo.Words)
					if len(yo.Words) > L {
						L = len(yo.Words)
					}
					precs := []uint32{20, uint32(19 * L / 2), uint32(19 * L), uint32(19*L + 1)}
					binSweep(c, j, []int{opMul, opQuo}, xo, yo, x, y, precs, modes)
					// the same receiver used twice: its mantissa array is reused for the second quotient / product
					if j == judgeValue && !c.Skip() {
						p, m := uint32(19*L), uint8(ToNearestEven)
						for _, op := range []int{opQuo, opMul} {
							z := fresh(p, m)
							pv, _ := protect(func() { doBin(op, z, x, y); doBin(op, z, x, y) })
							exp := modelBin(op, xo.V, yo.V, p, m)
							if pv != nil {
								c.Fail(fmt.Sprintf("%s twice into one receiver x=%s y=%s prec=%d", opNames[op], xo, yo, p), fmt.Sprintf("panic: %v", pv))
							} else if o := Observe(z); Canonical(o) != "" || !matchValue(o, exp) {
								c.Fail(fmt.Sprintf("%s twice into one receiver x=%s y=%s prec=%d", opNames[op], xo, yo, p), "second result differs from the model: "+cmpValue(o, exp)+Canonical(o))
							}
						}
					}
					// exact and nearly exact quotients of the product
					if len(xo.Words)+len(yo.Words) <= 140 {
						pi := new(big.Int).Mul(xo.V.Coef, yo.V.Coef)
						for _, r := range []int64{0, 1} {
							po := mkCoef(xo.Neg != yo.Neg, new(big.Int).Add(pi, big.NewInt(r)), xo.V.E10+yo.V.E10, uint32(ndigits(pi))+2, 0)
							binSweep(c, j, []int{opQuo}, po, yo, po.Build(), y, []uint32{uint32(19 * len(xo.Words)), uint32(19*len(xo.Words) + 1), 20}, modes)
						}
					}
				}
			},
		})
	}
	// L5: range ends
	{
		type pair struct {
			op     int
			ex, ey int64
		}
		var pairs []pair
		big := []int64{MaxExp, MaxExp - 1, MaxExp - 2, MaxExp - 20}
		small := []int64{MinExp, MinExp + 1, MinExp + 2, MinExp + 20}
		for _, a := range big {
			for _, b := range []int64{0, 1, 2, 3, 20, 21} {
				pairs = append(pairs, pair{opMul, a, b}, pair{opMul, b, a}, pair{opQuo, a, -b}, pair{opQuo, a, -b + 1})
			}
			for _, b := range big {
				pairs = append(pairs, pair{opAdd, a, b}, pair{opSub, a, b}, pair{opMul, a, b}, pair{opQuo, a, b})
			}
			for _, b := range small {
				pairs = append(pairs, pair{opQuo, a, b}, pair{opQuo, b, a}, pair{opMul, a, b}, pair{opAdd, a, b}) // Add with huge exponent gap is excluded below
			}
		}
		for _, a := range small {
			for _, b := range []int64{0, 1, 2, 3, -1, -2, -20, -21} {
				pairs = append(pairs, pair{opMul, a, b}, pair{opMul, b, a}, pair{opQuo, a, -b}, pair{opQuo, a, -b + 1})
			}
			for _, b := range small {
				pairs = append(pairs, pair{opAdd, a, b}, pair{opSub, a, b}, pair{opMul, a, b}, pair{opQuo, a, b})
			}
		}
		coefs := []int64{1, 2, 5, 9, 10, 15, 95, 99, 999, 9999999, 100001, 31622777, 31622776}
		layers = append(layers, Layer{
			Name:   "L5-range",
			Units:  len(pairs),
			Bounds: "operand exponents at MinExp..MinExp+20 / MaxExp-20..MaxExp so that exact results straddle 10^(MinExp-1) and 10^MaxExp; 13 coefficients², ±, prec {1,2,3,7,8}, 6 modes",
			Run: func(c *Ctx, u int) {
				pr := pairs[u]
				if (pr.op == opAdd || pr.op == opSub) && abs64(pr.ex-pr.ey) > 400 {
					return // alignment shift would allocate ∝ exponent gap (stated exclusion)
				}
				for _, cx := range coefs {
					for _, cy := range coefs {
						if c.Done() {
							return
						}
						for _, sx := range []int64{1, -1} {
							for _, sy := range []int64{1, -1} {
								// decimal exponent ex means value 0.c × 10^ex: e10 = ex − digits
								xo := mkInt64(sx*cx, 0, 34, 0)
								xo.Exp = pr.ex
								xo.V.E10 = pr.ex - int64(len(xo.Words))*DW
								yo := mkInt64(sy*cy, 0, 34, 0)
								yo.Exp = pr.ey
								yo.V.E10 = pr.ey - int64(len(yo.Words))*DW
								if xo.Exp < MinExp || xo.Exp > MaxExp || yo.Exp < MinExp || yo.Exp > MaxExp {
									continue
								}
								x, y := xo.Build(), yo.Build()
								binSweep(c, j, []int{pr.op}, xo, yo, x, y, []uint32{1, 2, 3, 7, 8}, M6)
							}
						}
					}
				}
			},
		})
	}
	// L15: products at the range ends whose leading digit is decided by the low words: mantissa products
	// just below / exactly / just above 0.1, exponent sums MinExp−1 … MinExp+1 and MaxExp … MaxExp+1
	{
		cps := [][2]string{
			{"33333333333333333334", "3"}, {"33333333333333333333", "3"}, {"333333333333333333333333333333333333333334", "3"}, {"333333333333333333333333333333333333333333", "3"},
			{"31622776601683793319988935444327185338", "31622776601683793319988935444327185338"}, {"31622776601683793319988935444327185337", "31622776601683793319988935444327185337"},
			{"3162277660168379332", "3162277660168379332"}, {"3162277660168379331", "3162277660168379332"},
			{"5", "2"}, {"25", "4"}, {"125", "8"}, {"2", "49999999999999999999999999999999999999"}, {"2", "50000000000000000000000000000000000001"},
			{"99999999999999999999", "99999999999999999999"}, {"1", "1"}, {"10000000000000000001", "99999999999999999999"}, {"7", "142857142857142857142857142858"},
		}
		sums := []int64{MinExp - 1, MinExp, MinExp + 1, MinExp + 2, MaxExp - 1, MaxExp, MaxExp + 1}
		layers = append(layers, Layer{
			Name:   "L15-range-ends-multiword-products",
			Units:  len(cps) * len(sums),
			Bounds: fmt.Sprintf("Mul of 0.cx×10^ex by 0.cy×10^ey for %d coefficient pairs whose mantissa product is just below / exactly / just above 0.1 (or just below 1), ex+ey in {MinExp−1, MinExp, MinExp+1, MinExp+2, MaxExp−1, MaxExp, MaxExp+1} split three ways (one operand near the end, both near half of it), ±, precision {1,19,20,38,40}, 6 modes", len(cps)),
			Run: func(c *Ctx, u int) {
				cp, sum := cps[u/len(sums)], sums[u%len(sums)]
				for _, ex := range []int64{sum / 2, sum + 5, -7} {
					ey := sum - ex
					if ex < MinExp || ex > MaxExp || ey < MinExp || ey > MaxExp {
						continue
					}
					for _, sx := range []bool{false, true} {
						for _, sy := range []bool{false, true} {
							if c.Done() {
								return
							}
							xo := mkCoef(sx, mustInt(cp[0]), 0, 0, 0)
							xo.Exp, xo.V.E10 = ex, ex-int64(len(xo.Words))*DW
							yo := mkCoef(sy, mustInt(cp[1]), 0, 0, 0)
							yo.Exp, yo.V.E10 = ey, ey-int64(len(yo.Words))*DW
							x, y := xo.Build(), yo.Build()
							binSweep(c, j, []int{opMul}, xo, yo, x, y, []uint32{1, 19, 20, 38, 40}, M6)
							binSweep(c, j, []int{opMul}, yo, xo, y, x, []uint32{1, 19, 20, 38, 40}, M6)
						}
					}
				}
			},
		})
	}
	// L17: SetPrec with requests beyond MaxPrec (documented: set to MaxPrec), also requests that are
	// small again modulo 2^32
	if bits.UintSize == 64 {
		one := uint(1)
		reqs := []uint{math.MaxUint32 - 1, math.MaxUint32, one << 32, one<<32 + 1, one<<32 + 7, one<<32 + 34, one << 33, one<<40 + 34, one << 63, ^uint(0), ^uint(0) - (one << 32) + 1 + 7}
		layers = append(layers, Layer{
			Name:   "L17-SetPrec-requests-beyond-MaxPrec",
			Units:  len(reqs),
			Bounds: fmt.Sprintf("z.SetPrec(p) for p in %d requests (MaxPrec−1, MaxPrec, 2^32, 2^32+1, 2^32+7, 2^32+34, 2^33, 2^40+34, 2^63, MaxUint, …) on z in {zero value, +0 of precision 7, 12345 at precision 7 and 34, −Inf of precision 34}, 6 modes: Prec() = min(p, MaxPrec), value and mode kept, accuracy Exact", len(reqs)),
			Run: func(c *Ctx, u int) {
				p := reqs[u]
				want := uint32(math.MaxUint32)
				if p < math.MaxUint32 {
					want = uint32(p)
				}
				for _, m := range M6 {
					for k := 0; k < 5; k++ {
						if c.Skip() {
							continue
						}
						c.NonTrivial()
						var z *Dec
						switch k {
						case 0:
							z = new(Dec).SetMode(decimal.RoundingMode(m))
						case 1:
							z = fresh(7, m)
						case 2:
							z = mkInt64(12345, 0, 7, m).Build()
						case 3:
							z = mkInt64(-12345, -2, 34, m).Build()
						case 4:
							z = mkSpecial(fInf, true, 34, m).Build()
						}
						before := Observe(z)
						pv, _ := protect(func() { z.SetPrec(p) })
						key := fmt.Sprintf("SetPrec(%d) on %s mode=%s", p, before, modeName(m))
						if pv != nil {
							c.Fail(key, fmt.Sprintf("panic: %v", pv))
							continue
						}
						o := Observe(z)
						if o.Prec != want || o.Mode != m || o.Acc != 0 || o.Form != before.Form || o.Neg != before.Neg || (o.Form == fFinite && !o.Val().Equal(before.Val())) {
							c.Fail(key, fmt.Sprintf("got %s, want the same value with precision %d, mode kept, accuracy Exact", o, want))
						}
					}
				}
			},
		})
	}
	// L16: the discarded words are words at the binary boundaries of the registers, in pairs (a scan of
	// the discarded part that adds or combines words must not wrap to "nothing discarded")
	{
		ws := append([]uint64{0}, Sbin...)
		layers = append(layers, Layer{
			Name:   "L16-binary-boundary-words-below-the-rounding-digit",
			Units:  len(ws),
			Bounds: fmt.Sprintf("x = [b, a, r, t] and [c, b, a, r, t] (little-endian): top word t (last digit even/odd), rounding word r in {0, 5·10^18}, discarded words a, b, c over %d words at the binary boundaries (2^63, 2^64−10^19, 2^32, …) and 0; Set / SetPrec / Add(x,+0) / Mul(x,1) to precision 19 and 20, 6 modes", len(ws)),
			Run: func(c *Ctx, u int) {
				a := ws[u]
				one := mkInt64(1, 0, 5, 0)
				zero := mkSpecial(fZero, false, 5, 0)
				for _, b := range ws {
					for ci := -1; ci < len(ws); ci += 3 {
						for _, rw := range []uint64{0, BW / 2} {
							for _, last := range []uint64{BW/10 + 2, BW/10 + 3} {
								if c.Done() {
									return
								}
								w := []uint64{b, a, rw, last}
								if ci >= 0 {
									w = append([]uint64{ws[ci]}, w...)
								}
								if a == 0 && b == 0 && (ci < 0 || ws[ci] == 0) && rw == 0 {
									continue
								}
								xo := mkWords(ci%2 == 0, w, 3, 0, ToNearestAway)
								x := xo.Build()
								for _, p := range []uint32{19, 20} {
									for _, m := range M6 {
										unaryCase(c, j, opSet, xo, p, m)
										unaryCase(c, j, opSetPrec, xo, p, m)
									}
								}
								binSweep(c, j, []int{opAdd}, xo, zero, x, zero.Build(), []uint32{19, 20}, M6)
								binSweep(c, j, []int{opMul}, xo, one, x, one.Build(), []uint32{19}, M6)
							}
						}
					}
				}
			},
		})
	}
	// L9: additive operands that are very far apart (the alignment shift is
	// materialised by uadd/usub: a gap of g digits costs g/19 words)
	{
		var gaps []int64
		hi := 16
		if tier == "thorough" {
			hi = 18
		}
		for k := 12; k <= hi; k++ {
			for _, d := range []int64{0, 1} {
				gaps = append(gaps, int64(1)<<uint(k)+d, DW<<uint(k)+d)
			}
		}
		gaps = append(gaps, 20000, 100000, 1000000)
		bigs := []string{"1", "9999999999999999999", "1234567890123456789012345", "99999999999999999999999999999999999999"}
		smalls := []string{"1", "5", "9999999999999999999", "50000000000000000000000001"}
		layers = append(layers, Layer{
			Name:      "L9-far-apart",
			Units:     len(gaps),
			UnitLimit: 600 * time.Second,
			Bounds:    fmt.Sprintf("Add/Sub of operands whose last digits are %d different distances up to %d digits apart (2^k, 19·2^k, +1; 20000, 10^5, 10^6): 4 large × 4 small operands × ± × both operand orders, prec {1, digits(x), digits(x)+1, 19, 34, 38, 57}, 6 modes", len(gaps), gaps[len(gaps)-4]),
			Run: func(c *Ctx, u int) {
				g := gaps[u]
				for _, bs := range bigs {
					for _, ss := range smalls {
						if c.Done() {
							return
						}
						precs := []uint32{1, uint32(len(bs)), uint32(len(bs)) + 1, 19, 34, 38, 57}
						for _, ny := range []bool{false, true} {
							xo := mkCoef(false, mustInt(bs), 0, 60, 0)
							// last digit of y lies g digits below the last digit of x
							yo := mkCoef(ny, mustInt(ss), -g, 60, 0)
							x, y := xo.Build(), yo.Build()
							binSweep(c, j, []int{opAdd, opSub}, xo, yo, x, y, precs, M6)
							binSweep(c, j, []int{opAdd, opSub}, yo, xo, y, x, precs, M6)
						}
					}
				}
			},
		})
	}
	// L6: zero operands with a non-zero operand that needs rounding
	{
		strs := RunLengthStrings(6)
		layers = append(layers, Layer{
			Name:   "L6-zero-operand",
			Units:  len(strs),
			Bounds: "Add/Sub(±0, y), Add/Sub(x, ±0), Mul/Quo with a zero (fresh, or in a variable that held a 3-word value before), y from R(6)×±, prec 1..len, 6 modes",
			Run: func(c *Ctx, u int) {
				s := strs[u]
				for _, neg := range []bool{false, true} {
					yo := mkCoef(neg, mustInt(s), -3, uint32(len(s))+3, 0)
					y := yo.Build()
					for zi := 0; zi < 8; zi++ {
						// the zero operand is fresh, or lives in a variable that held a 3-word value before; it carries
						// precision 34 or precision 0 (new(Decimal): not larger than any receiver precision)
						zo := mkSpecial(fZero, zi%2 == 1, []uint32{34, 0}[zi/4], 0).withStale(int8(3 * (zi / 2 % 2)))
						z := zo.Build()
						var precs []uint32
						for p := uint32(1); p <= uint32(len(s)); p++ {
							precs = append(precs, p)
						}
						binSweep(c, j, []int{opAdd, opSub, opMul}, zo, yo, z, y, precs, M6)
						binSweep(c, j, allBinOps, yo, zo, y, z, precs, M6)
						binSweep(c, j, []int{opQuo}, zo, yo, z, y, precs, M6)
					}
				}
			},
		})
	}
	return layers
}

func abs64(x int64) int64 {
	if x < 0 {
		return -x
	}
	return x
}

func init() {
	register(&Property{
		ID: "C01", Level: "model_checking",
		Rule: "a case is (operation, x, y, receiver precision, mode); cases are distinct by construction (alphabets are de-duplicated on the canonical value); a case is non-trivial when the exact result is not representable at the receiver's precision (a rounding decision is exercised)",
		Assumptions: []string{
			"operand values outside the enumerated alphabets are not covered (small-scope hypothesis; alphabets sit on the model's decision boundaries)",
			"Add/Sub exponent gaps above 400 digits are excluded (allocation ∝ gap; code path uniform beyond the first zero word)",
			"reference model (big.Int arithmetic, ref.go) is trusted; it self-checks against big.Rat on start-up",
		},
		Layers: func(tier string) []Layer { return arithLayers(judgeValue, tier) },
	})
	register(&Property{
		ID: "C02", Level: "model_checking",
		Rule: "a case is (operation, operands, receiver precision, mode); non-trivial when the exact result is inexact at that precision so Acc() must be Below or Above",
		Assumptions: []string{
			"Acc() is judged against sign(stored − exact) computed from the observed stored value, independently of C01's verdict on the value",
			"Neg/Abs and the float setters are not judged (not listed by the property)",
		},
		Layers: func(tier string) []Layer {
			fmaAccOnly = true
			ls := append(arithLayers(judgeAcc, tier), fmaLayers(tier)...)
			ls = append(ls, aliasLayers(tier)...) // accuracy under aliasing and on receivers whose previous accuracy was not Exact
			return append(ls, setterAccLayers(tier)...)
		},
	})
}

// largeOperands: operands of 31..130 (200) words plus short partners, shared by C01/C02 (L8) and C03 (F7).
func largeOperands(thorough bool) []*Opnd {
	var out []*Opnd
	lens := []int{31, 33, 64, 100, 130}
	if thorough {
		lens = []int{30, 31, 33, 62, 64, 99, 100, 101, 130, 200}
	}
	uni := func(n int, w, top, bot uint64) []uint64 {
		v := make([]uint64, n)
		for i := range v {
			v[i] = w
		}
		v[n-1], v[0] = top, bot
		return v
	}
	k := 0
	for _, n := range lens {
		vs := [][]uint64{
			uni(n, BW-1, BW-1, BW-1), // 10^(19n) − 1
			uni(n, 0, 1, 1),          // 10^(19(n−1)) + 1
			uni(n, 0, BW/10, 1),      // 10^(19n−1) + 1
			uni(n, BW-1, BW/2, 1),
			uni(n, 1, BW-1, 0),
			uni(n, BW/2, BW-2, BW-1),
			uni(n, BW-2, 1, BW/2),
		}
		// sparse: 1 0…0 3 0…0 1 and the upper half nines, lower half zeros + 3 + 1
		sp := uni(n, 0, 1, 1)
		sp[n/2] = 3
		vs = append(vs, sp)
		hn := uni(n, 0, BW-1, 1)
		for i := n / 2; i < n; i++ {
			hn[i] = BW - 1
		}
		hn[n/2-1] = 3
		vs = append(vs, hn)
		for _, v := range vs {
			k++
			out = append(out, mkWords(k%3 == 0, v, int64(k%7)-3, 0, 0))
		}
	}
	for _, v := range [][]uint64{{5}, {BW - 1}, {1, BW / 10}, {BW - 1, BW - 1}, {3, 7 * (BW / 10)}} {
		k++
		out = append(out, mkWords(k%2 == 0, v, 2, 0, 0))
	}
	return out
}
