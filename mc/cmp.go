package main

// C16: Cmp is the total order of the exact values; Sign/Signbit/IsZero/IsInf agree.

import (
	"encoding/binary"
	"fmt"
	"math"
	"math/big"
	"sort"

	"github.com/db47h/decimal"
)

type cmpVal struct {
	o    *Opnd
	d    *Dec
	rank int
	desc string
}

// decorated builds the Decimal for o with an attribute decoration:
// kind 0: as is; 1: other mode; 2: larger precision; 3: acc Below/Above obtained by a real rounding;
// 4: Set from a longer mantissa with trailing zero words; 5: precision attribute near MaxPrec.
func decorated(o *Opnd, kind int) *Dec {
	switch kind {
	case 1:
		a := *o
		a.Mode = (o.Mode + 3) % 6
		return a.Build()
	case 2:
		a := *o
		a.Prec = o.Prec + 23
		return a.Build()
	case 3:
		if o.Form != fFinite {
			return o.Build()
		}
		// x' = |o| + 1 unit far below; round toward zero at MinPrec digits -> stored == o, acc != 0
		mp := uint32(minPrecWords(o.Words))
		v := o.V
		tiny := Val{Form: fFinite, Neg: v.Neg, Coef: big1, E10: v.E10 - 25}
		xp := addExact(v, tiny)
		src := mkCoef(xp.Neg, xp.Coef, xp.E10, uint32(ndigits(xp.Coef)), 0)
		if src.Exp > MaxExp || src.Exp < MinExp {
			return o.Build()
		}
		z := fresh(mp, ToZero)
		z.Set(src.Build())
		return z
	case 4:
		// computed at a larger precision (mantissa with trailing zero words), then Set into a receiver whose
		// precision is just enough: the value is exactly representable, nothing is rounded
		if o.Form != fFinite {
			return o.Build()
		}
		long := *o
		long.Words = append([]uint64{0, 0}, o.Words...)
		long.Prec = uint32(len(long.Words) * DW)
		mp := uint32(minPrecWords(o.Words))
		z := fresh(mp, o.Mode)
		z.Set(long.Build())
		return z
	case 6:
		// reached from below by a rounding whose carry runs through a whole word of nines:
		// src = |o| − tiny at a longer precision, rounded away from zero to 19·len(words) digits
		if o.Form != fFinite {
			return o.Build()
		}
		{
			p := uint32(len(o.Words) * DW)
			tiny := Val{Form: fFinite, Neg: !o.V.Neg, Coef: big1, E10: o.V.E10 - 25}
			xp := addExact(o.V, tiny)
			src := mkCoef(xp.Neg, xp.Coef, xp.E10, uint32(ndigits(xp.Coef)), 0)
			if src.Exp > MaxExp || src.Exp < MinExp || o.V.E10-25 < MinExp {
				return o.Build()
			}
			z := fresh(p, AwayFromZero)
			z.Set(src.Build())
			if !Observe(z).Val().Equal(o.V) {
				return o.Build()
			}
			return z
		}
	case 7:
		// built through SetBitsExp from a slice that is not normalised: leading zero word and the
		// digits shifted right by three places
		if o.Form != fFinite {
			return o.Build()
		}
		{
			c := new(big.Int).Set(wordsToInt(o.Words))
			if new(big.Int).Mod(c, big.NewInt(1000)).Sign() != 0 {
				return o.Build() // the three low digits would be lost
			}
			c.Quo(c, big.NewInt(1000))
			raw := intToWords(c)
			for len(raw) < len(o.Words) {
				raw = append(raw, 0)
			}
			raw = append(raw, 0) // leading (most significant) zero word
			ws := make([]Word, len(raw))
			for i, w := range raw {
				ws[i] = Word(w)
			}
			z := fresh(o.Prec, o.Mode)
			z.SetBitsExp(ws, o.Exp+3+DW)
			if o.Neg {
				z.Neg(z)
			}
			return z
		}
	case 5:
		// precision is an attribute: the largest one
		a := *o
		a.Prec = math.MaxUint32 - uint32(len(o.Words)%3)
		return a.Build()
	}
	return o.Build()
}

// viaGob builds o by decoding a hand-made (valid) gob payload, so that the mantissa words arrive exactly as written.
func viaGob(o *Opnd) *Dec {
	b := []byte{1, o.Mode<<5 | 1<<3 | 1<<1}
	if o.Neg {
		b[1] |= 1
	}
	b = binary.BigEndian.AppendUint32(b, o.Prec)
	b = binary.BigEndian.AppendUint32(b, uint32(int32(o.Exp)))
	for i := len(o.Words) - 1; i >= 0; i-- {
		b = binary.BigEndian.AppendUint64(b, o.Words[i])
	}
	d := new(Dec)
	if err := d.GobDecode(b); err != nil {
		return nil
	}
	if m, _ := d.BitsExp(); len(m) != len(o.Words) {
		return nil
	}
	return d
}

func cmpValues(tier string) []*cmpVal {
	var os []*Opnd
	os = append(os, DVals(2, 2, true, 34, 0)...)
	if tier == "thorough" {
		os = append(os, DVals(3, 1, true, 34, 0)...)
		for _, v := range WVecs(3, S12) {
			os = append(os, mkWords(false, v, 0, 0, 0), mkWords(true, v, 0, 0, 0), mkWords(false, append([]uint64{0}, v...), 0, 0, 0))
		}
	}
	for _, v := range WVecs(3, S7) {
		os = append(os, mkWords(false, v, 0, 0, 0), mkWords(true, v, 0, 0, 0))
		// same value with an extra low zero word (longer mantissa, equal value)
		w := append([]uint64{0}, v...)
		os = append(os, mkWords(false, w, 0, 0, 0), mkWords(true, w, 0, 0, 0))
		// differing only in the last digit of a longer mantissa
		w2 := append([]uint64{1}, v...)
		os = append(os, mkWords(false, w2, 0, 0, 0), mkWords(true, w2, 0, 0, 0))
	}
	// words at the binary boundaries of the registers (sums of words that wrap 2^64, …)
	for _, v := range WVecs(3, []uint64{BW - 1, (1<<64 - 1) - BW + 2, 1 << 63, 1<<63 - 1, 1}) {
		os = append(os, mkWords(false, v, 0, 0, 0), mkWords(true, v, 0, 0, 0))
	}
	// long mantissas (4 … 33 words) of one repeated word that differ from each other in exactly one
	// word, at every index, and the same vectors with one more low word: a comparison loop that
	// handles several words per step, or skips equal blocks, is decided by a word in the middle
	longLens := []int{4, 7, 8, 9, 12, 13, 16, 17}
	if tier == "thorough" {
		longLens = append(longLens, 5, 6, 10, 11, 15, 24, 25, 32, 33, 64, 65)
	}
	for _, n := range longLens {
		for _, w := range []uint64{BW - 2, 3333333333333333333, BW / 10, 0} {
			base := make([]uint64, n)
			for i := range base {
				base[i] = w
			}
			if w < BW/10 {
				base[n-1] = BW / 10
			}
			os = append(os, mkWords(false, base, 0, 0, 0), mkWords(true, base, 0, 0, 0))
			for i := 0; i < n; i++ {
				for _, d := range []uint64{1, ^uint64(0)} {
					if base[i] == 0 && d != 1 || i == n-1 && base[i]+d < BW/10 {
						continue
					}
					v := append([]uint64(nil), base...)
					v[i] += d
					os = append(os, mkWords(i%2 == 1, v, 0, 0, 0))
					if i%3 == 0 {
						os = append(os, mkWords(i%2 == 0, v, 0, 0, 0))
					}
				}
			}
			os = append(os, mkWords(false, append([]uint64{0}, base...), 0, 0, 0), mkWords(false, append([]uint64{1}, base...), 0, 0, 0))
		}
	}
	J := 20
	for _, s := range RunLengthStrings(J) {
		c := mustInt(s)
		os = append(os, mkCoef(false, c, -int64(len(s)), uint32(len(s))+1, 0), mkCoef(true, c, -int64(len(s)), uint32(len(s))+1, 0))
	}
	for _, e := range []int64{MinExp, MinExp + 1, MaxExp - 1, MaxExp, 0, 1, -1} {
		for _, cf := range []int64{1, 2, 99, -1, -2, -99} {
			o := mkInt64(cf, 0, 34, 0)
			o.Exp = e
			o.V.E10 = e - int64(len(o.Words))*DW
			os = append(os, o)
		}
	}
	os = append(os, mkSpecial(fZero, false, 0, 0), mkSpecial(fZero, true, 5, 0), mkSpecial(fInf, false, 3, 0), mkSpecial(fInf, true, 0, 0))
	// every special with precision 0 and with a non-zero precision, twice (one copy stays undecorated)
	for _, f := range []int8{fZero, fInf} {
		for _, n := range []bool{false, true} {
			for _, p := range []uint32{0, 0, 9, 9} {
				os = append(os, mkSpecial(f, n, p, 0))
			}
		}
	}
	// zeros and infinities living in variables that held a finite value before (mant/exp are stale, documented as ignored)
	for k := 1; k < len(staleKinds); k++ {
		for _, f := range []int8{fZero, fInf} {
			os = append(os, mkSpecial(f, false, 7, 0).withStale(int8(k)), mkSpecial(f, true, 7, 0).withStale(int8(k)))
		}
	}
	vals := make([]*cmpVal, len(os))
	for i, o := range os {
		kind := i % 8
		if o.Form != fFinite {
			kind = i % 2 // ±0 / ±Inf: as is (keeps precision 0) or with another rounding mode; their other shapes are listed explicitly above
		}
		vals[i] = &cmpVal{o: o, d: decorated(o, kind), desc: o.String()}
		if o.Form == fFinite && len(o.Words) > 1 && o.Words[0] == 0 {
			// a mantissa with a low zero word that did not go through the library's rounding:
			// as it arrives from a gob stream, or after clearing the word through BitsExp
			if i%2 == 0 {
				if d := viaGob(o); d != nil {
					vals[i].d, vals[i].desc = d, o.String()+"(via gob)"
				}
			} else {
				nz := *o
				nz.Words = append([]uint64{7}, o.Words[1:]...)
				d := nz.Build()
				if m, _ := d.BitsExp(); len(m) == len(o.Words) {
					m[0] = 0
					vals[i].d, vals[i].desc = d, o.String()+"(low word cleared through BitsExp)"
				}
			}
		}
		if got := Observe(vals[i].d).Val(); !got.Equal(o.V) {
			panic(fmt.Sprintf("cmp: decoration changed the value of %s: %s", o, got))
		}
	}
	// ranks by exact value
	idx := make([]int, len(vals))
	for i := range idx {
		idx[i] = i
	}
	sort.SliceStable(idx, func(a, b int) bool { return CmpVal(vals[idx[a]].o.V, vals[idx[b]].o.V) < 0 })
	r := 0
	for k, i := range idx {
		if k > 0 && CmpVal(vals[idx[k-1]].o.V, vals[i].o.V) != 0 {
			r++
		}
		vals[i].rank = r
	}
	return vals
}

func sgn(x int) int {
	if x < 0 {
		return -1
	}
	if x > 0 {
		return 1
	}
	return 0
}

func cmpLayers(tier string) []Layer {
	var vals []*cmpVal
	get := func() []*cmpVal {
		if vals == nil {
			vals = cmpValues(tier)
		}
		return vals
	}
	n := len(cmpValues(tier))
	var layers []Layer
	layers = append(layers, Layer{
		Name:   "O1-pairs",
		Units:  n,
		Bounds: fmt.Sprintf("all ordered pairs over %d values: ±D(2)×10^[-2..2], ±W(3,S7) plain / with an extra low zero word (built through SetBitsExp, through a gob payload, or by clearing the word through BitsExp) / with a differing lowest word, run-length strings, range-end exponents, ±0, ±Inf (also in variables that held 1, 1e-7, a 3-word value, 5e5 before); each value decorated (mode, larger precision, non-Exact accuracy from a real rounding, Set from a longer mantissa with trailing zero words, precision attribute near MaxPrec, reached from below by a carry through a word of nines, built by SetBitsExp from an un-normalised slice with a leading zero word); 4 … 17-word (thorough … 65) mantissas of one repeated word differing in exactly one word at every index", n),
		Run: func(c *Ctx, u int) {
			vs := get()
			x := vs[u]
			// per-value predicates
			if !c.Skip() {
				want := 0
				if x.o.Form != fZero {
					want = 1
					if x.o.Neg {
						want = -1
					}
				}
				if x.d.Sign() != want || x.d.Signbit() != x.o.Neg || x.d.IsZero() != (x.o.Form == fZero) || x.d.IsInf() != (x.o.Form == fInf) {
					c.Fail("predicates x="+x.desc, fmt.Sprintf("Sign=%d Signbit=%v IsZero=%v IsInf=%v", x.d.Sign(), x.d.Signbit(), x.d.IsZero(), x.d.IsInf()))
				}
			}
			for _, y := range vs {
				if c.Skip() {
					continue
				}
				got := x.d.Cmp(y.d)
				want := sgn(x.rank - y.rank)
				c.Outcome(uint64(got + 2))
				if x.rank != y.rank && x.o.Form == fFinite && y.o.Form == fFinite && x.o.Neg == y.o.Neg && x.o.Exp == y.o.Exp {
					c.NonTrivial() // decided by the mantissa comparison loop
				}
				if got != want {
					c.Fail(fmt.Sprintf("Cmp x=%s y=%s", x.desc, y.desc), fmt.Sprintf("Cmp = %d, exact order says %d", got, want))
				} else if back := y.d.Cmp(x.d); back != -got {
					c.Fail(fmt.Sprintf("Cmp antisymmetry x=%s y=%s", x.desc, y.desc), fmt.Sprintf("x.Cmp(y) = %d but y.Cmp(x) = %d", got, back))
				}
				if c.WantSample() {
					c.Sample(fmt.Sprintf("Cmp(%s, %s) = %d", x.desc, y.desc, got))
				}
			}
		},
	})
	sub := 300
	layers = append(layers, Layer{
		Name:   "O2-triples",
		Units:  sub,
		Bounds: fmt.Sprintf("all ordered triples over a %d-value subset (every k-th value): transitivity of <= as computed by Cmp alone", sub),
		Run: func(c *Ctx, u int) {
			vs := get()
			step := len(vs) / sub
			pick := func(i int) *cmpVal { return vs[(i*step+i%step)%len(vs)] }
			x := pick(u)
			for j := 0; j < sub; j++ {
				y := pick(j)
				xy := x.d.Cmp(y.d)
				for k := 0; k < sub; k++ {
					if c.Skip() {
						continue
					}
					z := pick(k)
					yz := y.d.Cmp(z.d)
					if xy <= 0 && yz <= 0 {
						c.NonTrivial()
						xz := x.d.Cmp(z.d)
						if xz > 0 || (xz == 0 && (xy < 0 || yz < 0)) {
							c.Fail(fmt.Sprintf("transitivity x=%s y=%s z=%s", x.desc, y.desc, z.desc), fmt.Sprintf("x?y=%d y?z=%d but x?z=%d", xy, yz, xz))
						}
					}
				}
			}
		},
	})
	_ = decimal.MaxExp
	return layers
}

func init() {
	register(&Property{
		ID: "C16", Level: "model_checking",
		Rule:        "a case is an ordered pair (or triple) of decorated values; pairs are non-trivial when both are finite with equal sign and exponent so that the word-by-word mantissa loop decides; triples are non-trivial when the premise x<=y<=z holds",
		Assumptions: []string{"exact order computed on big.Int by mc/ref.go CmpVal"},
		Layers:      cmpLayers,
	})
}
