package main

func init() {}
