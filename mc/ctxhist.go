package main

// C19: Context operations round to the context and latch the first NaN.
// Explicit-state BFS over histories of Context calls on the real Context,
// against the latch automaton {armed, latched(e)} × reference rounding.

import (
	"fmt"
	"math"
	"math/big"
	"math/bits"
	"strings"
	"sync"

	"github.com/db47h/decimal"
	dctx "github.com/db47h/decimal/context"
)

type cstate struct {
	c    dctx.Context
	z    [2]*Dec
	vals []*Dec // constant operands (never receivers)
}

// model side
type cmodel struct {
	prec    uint32
	mode    uint8
	latched bool
}

type cop struct {
	name string
	// run executes on the real objects, returns (returned pointer == receiver?, Err() result if the op is Err, panic value)
	recv   int // receiver variable (-1 none)
	kind   int
	op     int   // arithmetic op id
	srcs   []int // operand indices: >= 0 constant menu index, -1 = the other variable
	arg    uint  // SetPrec / SetMode argument
	nilArg bool
}

const (
	ckArith = iota
	ckErr
	ckSetPrec
	ckSetMode
	ckNew
)

var ctxConsts []*Opnd

func ctxConstants() []*Opnd {
	if ctxConsts == nil {
		long := mkCoef(false, mustInt("1234567890123456789012345678901234567891"), -20, 45, ToZero)
		ctxConsts = []*Opnd{
			mkSpecial(fInf, true, 0, 0),   // 0 -Inf
			mkInt64(-15, -1, 7, 3),        // 1 -1.5
			mkSpecial(fZero, true, 0, 0),  // 2 -0
			mkSpecial(fZero, false, 3, 1), // 3 +0
			mkInt64(225, -2, 9, 5),        // 4 2.25
			mkInt64(123456, -5, 6, 2),     // 5 1.23456
			mkInt64(1, -3, 34, 0),         // 6 1e-3
			mkSpecial(fInf, false, 5, 4),  // 7 +Inf
			long,                          // 8 40-digit value
			mkCoef(false, mustInt("1225"+strings.Repeat("0", 35)+"1"), -39, 40, ToNearestAway), // 9  1.225 0…0 1: a tie at 3 digits decided by a digit two words further down
			mkCoef(false, mustInt("1"+strings.Repeat("0", 28)+"1"), -29, 30, 0),                // 10 1+1e-29
			mkCoef(false, mustInt(strings.Repeat("9", 29)), -29, 29, 0),                        // 11 1-1e-29
			mkInt64(-1, 0, 1, 0),       // 12 -1
			mkInt64(10017225, 0, 9, 0), // 13 3165²: the root is an exact tie at 3 digits
			mkWords(false, []uint64{0, 3, 0, 3 * (BW / 10)}, 1, 0, ToNearestAway), // 14 3.000…03 in a 4-word mantissa with a trailing zero word: ÷(−1.5) = −2.000…02
		}
	}
	return ctxConsts
}

func ctxOps() []cop {
	var ops []cop
	pairs := [][2]int{{4, 5}, {7, 0}, {3, 7}, {3, 2}, {7, 7}, {-1, 5}, {8, 6}, {1, -1}, {0, 0}, {9, 3}, {2, 9}}
	for _, op := range []int{opAdd, opSub, opMul, opQuo} {
		for r := 0; r < 2; r++ {
			for _, p := range pairs {
				ops = append(ops, cop{name: fmt.Sprintf("z%d=%s(%s,%s)", r, opNames[op], cname(p[0]), cname(p[1])), recv: r, kind: ckArith, op: op, srcs: []int{p[0], p[1]}})
			}
		}
	}
	for r := 0; r < 2; r++ {
		for _, t := range [][3]int{{4, 5, 8}, {3, 7, 5}, {7, 4, 0}, {-1, 5, 6}, {5, 5, -1}, {10, 11, 12}, {3, 4, 9}} {
			ops = append(ops, cop{name: fmt.Sprintf("z%d=FMA(%s,%s,%s)", r, cname(t[0]), cname(t[1]), cname(t[2])), recv: r, kind: ckArith, op: opFMA, srcs: []int{t[0], t[1], t[2]}})
		}
		for _, x := range []int{1, 4, 8, 7, 2, -1, 13} {
			ops = append(ops, cop{name: fmt.Sprintf("z%d=Sqrt(%s)", r, cname(x)), recv: r, kind: ckArith, op: opSqrt, srcs: []int{x}})
		}
		for _, op := range []int{opNeg, opAbs, opSet} {
			for _, x := range []int{1, 8, 0, -1, 9} {
				ops = append(ops, cop{name: fmt.Sprintf("z%d=%s(%s)", r, opNames[op], cname(x)), recv: r, kind: ckArith, op: op, srcs: []int{x}})
			}
		}
		ops = append(ops, cop{name: fmt.Sprintf("z%d=Quo(%s,%s)", r, cname(14), cname(1)), recv: r, kind: ckArith, op: opQuo, srcs: []int{14, 1}})
		ops = append(ops, cop{name: fmt.Sprintf("z%d=Add(nil,1.23456)", r), recv: r, kind: ckArith, op: opAdd, srcs: []int{5, 5}, nilArg: true})
		if r == 0 {
			for _, op := range []int{opSub, opMul, opQuo} {
				ops = append(ops, cop{name: fmt.Sprintf("z%d=%s(nil,1.23456)", r, opNames[op]), recv: r, kind: ckArith, op: op, srcs: []int{5, 5}, nilArg: true})
			}
			ops = append(ops, cop{name: "z0=FMA(nil,1.23456,1e-3)", recv: r, kind: ckArith, op: opFMA, srcs: []int{5, 5, 6}, nilArg: true})
			ops = append(ops, cop{name: "z0=Sqrt(nil)", recv: r, kind: ckArith, op: opSqrt, srcs: []int{5}, nilArg: true})
		}
	}
	ops = append(ops, cop{name: "Err()", recv: -1, kind: ckErr})
	for _, p := range []uint{0, 2, 5} {
		ops = append(ops, cop{name: fmt.Sprintf("SetPrec(%d)", p), recv: -1, kind: ckSetPrec, arg: p})
	}
	for _, m := range []uint{0, 2, 4} {
		ops = append(ops, cop{name: fmt.Sprintf("SetMode(%d)", m), recv: -1, kind: ckSetMode, arg: m})
	}
	ops = append(ops, cop{name: "New*", recv: -1, kind: ckNew})
	return ops
}

func cname(i int) string {
	if i < 0 {
		return "other"
	}
	return []string{"-Inf", "-1.5", "-0", "+0", "2.25", "1.23456", "1e-3", "+Inf", "long40", "1.225(0×35)1", "1+1e-29", "1-1e-29", "-1", "3165²", "3.0(×37)3[4 words]"}[i]
}

func newCState() *cstate {
	s := &cstate{c: dctx.New(3, decimal.ToNearestEven)}
	s.z[0] = mkInt64(7, 0, 20, ToPositiveInf).Build()
	s.z[1] = buildPre(preLonger, 40, ToZero)
	for _, o := range ctxConstants() {
		s.vals = append(s.vals, o.Build())
	}
	return s
}

func newCModel() cmodel { return cmodel{prec: 3, mode: ToNearestEven} }

// cresult of one real step
type cresult struct {
	pv       interface{}
	retIsZ   bool
	errRet   error
	newObs   []Obs // for ckNew
	newFails string
}

func (s *cstate) operand(i, recv int) *Dec {
	if i < 0 {
		return s.z[1-recv]
	}
	return s.vals[i]
}

func (s *cstate) step(o *cop) (res cresult) {
	res.pv, _ = protect(func() {
		switch o.kind {
		case ckErr:
			res.errRet = s.c.Err()
		case ckSetPrec:
			if s.c.SetPrec(o.arg) != &s.c {
				res.newFails = "SetPrec did not return the context"
			}
		case ckSetMode:
			s.c.SetMode(decimal.RoundingMode(o.arg))
		case ckNew:
			res.newObs = nil
			add := func(d *Dec) {
				if d == nil {
					res.newFails += "nil result; "
					return
				}
				res.newObs = append(res.newObs, Observe(d))
			}
			add(s.c.New())
			add(s.c.NewInt64(-12345))
			add(s.c.NewUint64(99999))
			add(s.c.NewInt(new(big.Int).Lsh(big1, 70)))
			add(s.c.NewFloat64(0.1))
			add(s.c.NewRat(big.NewRat(2, 3)))
			add(s.c.NewFloat(big.NewFloat(1.5)))
			d, ok := s.c.NewString("1.23456789")
			if !ok {
				res.newFails += "NewString failed; "
			}
			add(d)
			d, _, err := s.c.ParseDecimal("-9.87654321e3", 0)
			if err != nil {
				res.newFails += "ParseDecimal failed; "
			}
			add(d)
		case ckArith:
			z := s.z[o.recv]
			var args []*Dec
			for _, i := range o.srcs {
				args = append(args, s.operand(i, o.recv))
			}
			if o.nilArg {
				args[0] = nil
			}
			var r *Dec
			switch o.op {
			case opAdd:
				r = s.c.Add(z, args[0], args[1])
			case opSub:
				r = s.c.Sub(z, args[0], args[1])
			case opMul:
				r = s.c.Mul(z, args[0], args[1])
			case opQuo:
				r = s.c.Quo(z, args[0], args[1])
			case opFMA:
				r = s.c.FMA(z, args[0], args[1], args[2])
			case opSqrt:
				r = s.c.Sqrt(z, args[0])
			case opNeg:
				r = s.c.Neg(z, args[0])
			case opAbs:
				r = s.c.Abs(z, args[0])
			case opSet:
				r = s.c.Set(z, args[0])
			}
			res.retIsZ = r == z
		}
	})
	return
}

func buildCState(ops []cop, path []int32) (*cstate, cmodel, bool) {
	s := newCState()
	m := newCModel()
	for _, oi := range path {
		o := &ops[oi]
		before := [2]Obs{Observe(s.z[0]), Observe(s.z[1])}
		res := s.step(o)
		m = m.next(o, before, res)
	}
	return s, m, true
}

// next advances the model by what the *specification* says (independent of the implementation's result,
// except for the values of z which are read back from the real objects by the caller).
func (m cmodel) next(o *cop, before [2]Obs, res cresult) cmodel {
	switch o.kind {
	case ckErr:
		m.latched = false
	case ckSetPrec:
		m.prec = uint32(o.arg)
		if m.prec == 0 {
			m.prec = 34
		}
	case ckSetMode:
		m.mode = uint8(o.arg)
	case ckArith:
		if !m.latched && !o.nilArg {
			vals := make([]Val, len(o.srcs))
			for i, si := range o.srcs {
				if si < 0 {
					vals[i] = before[1-o.recv].Val()
				} else {
					vals[i] = ctxConstants()[si].V
				}
			}
			if opSpecs[o.op].Model(vals, m.prec, m.mode).NaN {
				m.latched = true
			}
		}
	}
	return m
}

func ckey(s *cstate, m cmodel) string {
	return fmt.Sprintf("%d/%d/%v/%d/%d|%s|%s", m.prec, m.mode, m.latched, s.c.Prec(), s.c.Mode(), stateKey([]*Dec{s.z[0]}), stateKey([]*Dec{s.z[1]}))
}

type ctxSpace struct {
	ops    []cop
	levels [][][]int32
}

var ctxSpaceOnce sync.Once
var ctxSp *ctxSpace
var ctxMaxLevel = 3

func getCtxSpace() *ctxSpace {
	ctxSpaceOnce.Do(func() {
		sp := &ctxSpace{ops: ctxOps()}
		seen := map[string]bool{}
		s, m, _ := buildCState(sp.ops, nil)
		seen[ckey(s, m)] = true
		sp.levels = [][][]int32{{nil}}
		for L := 1; L <= ctxMaxLevel; L++ {
			var next [][]int32
			for _, p := range sp.levels[L-1] {
				for oi := range sp.ops {
					np := append(append([]int32(nil), p...), int32(oi))
					progressNote.Store(fmt.Sprint("context history ", np))
					s, m, _ := buildCState(sp.ops, np)
					k := ckey(s, m)
					if !seen[k] {
						seen[k] = true
						next = append(next, np)
					}
				}
			}
			sp.levels = append(sp.levels, next)
		}
		ctxSp = sp
	})
	return ctxSp
}

func cpath(ops []cop, p []int32) string {
	var parts []string
	for _, oi := range p {
		parts = append(parts, ops[oi].name)
	}
	return strings.Join(parts, "; ")
}

func ctxTransition(c *Ctx, sp *ctxSpace, path []int32, oi int) {
	if c.Skip() {
		return
	}
	o := &sp.ops[oi]
	s, m, _ := buildCState(sp.ops, path)
	before := [2]Obs{Observe(s.z[0]), Observe(s.z[1])}
	constBefore := make([]Obs, len(s.vals))
	for i, v := range s.vals {
		constBefore[i] = Observe(v)
	}
	res := s.step(o)
	after := [2]Obs{Observe(s.z[0]), Observe(s.z[1])}
	key := func() string { return cpath(sp.ops, path) + " => " + o.name }
	c.Outcome(fnvStr(0, ckey(s, m)))
	c.NonTrivial()
	fail := func(msg string) { c.Fail(key(), msg) }
	// constants are never modified
	for i, v := range s.vals {
		if !sameValueAttrs(constBefore[i], Observe(v)) {
			fail(fmt.Sprintf("operand constant %s modified", cname(i)))
			return
		}
	}
	if uint32(s.c.Prec()) != m.next(o, before, res).prec && o.kind == ckSetPrec {
		fail(fmt.Sprintf("context precision %d after %s", s.c.Prec(), o.name))
		return
	}
	switch o.kind {
	case ckErr:
		if res.pv != nil {
			fail(fmt.Sprintf("Err() panicked: %v", res.pv))
			return
		}
		if m.latched {
			if _, ok := res.errRet.(decimal.ErrNaN); !ok {
				fail(fmt.Sprintf("Err() = %v (%T), want the recorded ErrNaN", res.errRet, res.errRet))
				return
			}
			if again := s.c.Err(); again != nil {
				fail(fmt.Sprintf("second Err() = %v, want nil (the error is returned exactly once)", again))
			}
		} else if res.errRet != nil {
			fail(fmt.Sprintf("Err() = %v on an armed context, want nil", res.errRet))
		}
	case ckSetPrec, ckSetMode:
		if res.pv != nil || res.newFails != "" {
			fail(fmt.Sprintf("panic %v %s", res.pv, res.newFails))
		}
		mm := m.next(o, before, res)
		if uint32(s.c.Prec()) != mm.prec || uint8(s.c.Mode()) != mm.mode {
			fail(fmt.Sprintf("context attributes (%d,%d), want (%d,%d)", s.c.Prec(), s.c.Mode(), mm.prec, mm.mode))
		}
		if !(sameValueAttrs(after[0], before[0]) && sameValueAttrs(after[1], before[1])) {
			fail("a context attribute setter modified a Decimal")
		}
	case ckNew:
		if res.pv != nil || res.newFails != "" {
			fail(fmt.Sprintf("New*: panic %v %s", res.pv, res.newFails))
			return
		}
		exact := []Val{
			{Form: fZero}, valOfInt(big.NewInt(-12345)), valOfInt(big.NewInt(99999)), valOfInt(new(big.Int).Lsh(big1, 70)),
			exactOfFloat(0.1), {}, exactOfFloat(1.5), {Form: fFinite, Coef: big.NewInt(123456789), E10: -8}, {Form: fFinite, Neg: true, Coef: big.NewInt(987654321), E10: -5},
		}
		for i, ob := range res.newObs {
			if ob.Prec != m.prec || ob.Mode != m.mode {
				fail(fmt.Sprintf("New* result #%d has precision/mode (%d,%d), context has (%d,%d)", i, ob.Prec, ob.Mode, m.prec, m.mode))
				return
			}
			if msg := Canonical(ob); msg != "" {
				fail("New* result malformed: " + msg)
				return
			}
			var exp RRes
			switch i {
			case 5:
				exp = PrepRat(big.NewInt(2), big.NewInt(3), 0, m.prec).Apply(false, m.mode)
			case 4:
				// NewFloat64 is only required to be within one ulp (C15)
				continue
			default:
				exp = RoundVal(exact[i], m.prec, m.mode)
			}
			if !matchValue(ob, exp) {
				fail(fmt.Sprintf("New* result #%d: %s", i, cmpValue(ob, exp)))
				return
			}
		}
	case ckArith:
		z := o.recv
		other := 1 - z
		if !sameValueAttrs(after[other], before[other]) {
			fail(fmt.Sprintf("the variable that is not the receiver changed: %s -> %s", before[other], after[other]))
			return
		}
		if o.nilArg {
			if m.latched {
				if res.pv != nil {
					fail(fmt.Sprintf("latched context must not evaluate the operation, but it panicked: %v", res.pv))
				}
				return
			}
			if res.pv == nil {
				fail("a nil operand must cause a run-time panic that reaches the caller; it was swallowed")
				return
			}
			if _, isNaN := res.pv.(decimal.ErrNaN); isNaN {
				fail("nil operand reported as ErrNaN")
				return
			}
			// and it must not have latched anything
			if e := s.c.Err(); e != nil {
				fail(fmt.Sprintf("a non-ErrNaN panic was recorded by the context: Err() = %v", e))
			}
			return
		}
		if res.pv != nil {
			fail(fmt.Sprintf("Context operation panicked: %v", res.pv))
			return
		}
		if !res.retIsZ {
			fail("the operation did not return its receiver")
			return
		}
		if m.latched {
			if !sameValueAttrs(after[z], before[z]) || after[z].Len != before[z].Len {
				fail(fmt.Sprintf("latched context modified the receiver: %s -> %s", before[z], after[z]))
			}
			return
		}
		vals := make([]Val, len(o.srcs))
		for i, si := range o.srcs {
			if si < 0 {
				vals[i] = before[other].Val()
			} else {
				vals[i] = ctxConstants()[si].V
			}
		}
		exp := opSpecs[o.op].Model(vals, m.prec, m.mode)
		if exp.NaN {
			// must have latched: Err() returns an ErrNaN (checked on a copy of the history to keep this state intact)
			e := s.c.Err()
			if _, ok := e.(decimal.ErrNaN); !ok {
				fail(fmt.Sprintf("NaN-producing operation: Err() = %v (%T), want ErrNaN", e, e))
			}
			if msg := Canonical(after[z]); msg != "" {
				fail("receiver malformed after a latched NaN: " + msg)
			}
			return
		}
		if e := s.c.Err(); e != nil {
			fail(fmt.Sprintf("valid operation recorded an error: %v", e))
			return
		}
		ob := after[z]
		if ob.Prec != m.prec || ob.Mode != m.mode {
			fail(fmt.Sprintf("result has precision/mode (%d,%s), the context has (%d,%s)", ob.Prec, modeName(ob.Mode), m.prec, modeName(m.mode)))
			return
		}
		if msg := Canonical(ob); msg != "" {
			fail("result malformed: " + msg)
			return
		}
		if !matchValue(ob, exp) {
			if o.op == opFMA {
				ops3 := []*Opnd{{V: vals[0]}, {V: vals[1]}, {V: vals[2]}}
				_ = ops3
			}
			fail(cmpValue(ob, exp))
			return
		}
	}
	if c.WantSample() {
		c.Sample(key())
	}
}

func ctxLayers(tier string) []Layer {
	if tier == "thorough" {
		ctxMaxLevel = 4
	} else {
		ctxMaxLevel = 3
	}
	sp := getCtxSpace()
	var layers []Layer
	const chunk = 8
	for L := 0; L <= ctxMaxLevel; L++ {
		L := L
		n := len(sp.levels[L])
		layers = append(layers, Layer{
			Name:   fmt.Sprintf("E2ctx-depth%d", L+1),
			Units:  (n + chunk - 1) / chunk,
			Bounds: fmt.Sprintf("every one of %d Context calls (Add/Sub/Mul/Quo/FMA/Sqrt/Neg/Abs/Set on 2 receivers with valid, NaN-producing and nil operands; Err; SetPrec{0,2,5}; SetMode{0,2,4}; New/NewInt/NewInt64/NewUint64/NewFloat/NewFloat64/NewRat/NewString/ParseDecimal) applied in each of the %d distinct states first reached by %d call(s); state = (context precision, mode, latch, both variables)", len(sp.ops), n, L),
			Run: func(c *Ctx, u int) {
				sp := getCtxSpace()
				for i := u * chunk; i < (u+1)*chunk && i < len(sp.levels[L]); i++ {
					for oi := range sp.ops {
						ctxTransition(c, sp, sp.levels[L][i], oi)
					}
					if c.Done() {
						return
					}
				}
			},
		})
	}
	// A1: the context's own attributes for every kind of precision request (exact operations only, so that
	// a context at MaxPrec never has to produce MaxPrec digits)
	{
		reqs := []uint{0, 1, 2, 34, 1 << 31, math.MaxUint32 - 1, math.MaxUint32}
		if bits.UintSize == 64 {
			one := uint(1)
			reqs = append(reqs, one<<32, one<<32+1, one<<32+33, one<<33, 3*(one<<32), one<<40, one<<63, ^uint(0), ^uint(0)-(one<<32)+1)
		}
		layers = append(layers, Layer{
			Name:   "A1-context-attributes",
			Units:  len(reqs),
			Bounds: fmt.Sprintf("context.New(p, m) and (*Context).SetPrec(p) for p in %d requests (0, small, 2^31, MaxPrec−1, MaxPrec, 2^32, 2^32+1, 2^32+33, 2^33, 3·2^32, 2^40, 2^63, MaxUint, …) × 6 modes: Prec() is 34 for 0 and min(p, MaxPrec) otherwise, Mode() kept; an exact 38-digit product and a 20-digit sum come out exact (or correctly rounded) at that precision", len(reqs)),
			Run: func(c *Ctx, u int) {
				p := reqs[u]
				want := uint(34)
				if p != 0 {
					want = p
					if want > math.MaxUint32 {
						want = math.MaxUint32
					}
				}
				a := mkCoef(false, mustInt("1234567890123456789"), 0, 19, 0)
				b := mkCoef(true, mustInt("9876543210987654321"), -5, 19, 0)
				for _, m := range M6 {
					for variant := 0; variant < 2; variant++ {
						if c.Skip() {
							continue
						}
						var cx dctx.Context
						if variant == 0 {
							cx = dctx.New(p, decimal.RoundingMode(m))
						} else {
							cx = dctx.New(7, decimal.RoundingMode(m))
							cx.SetPrec(p)
						}
						key := fmt.Sprintf("context precision request %d (variant %d) mode=%s", p, variant, modeName(m))
						c.NonTrivial()
						if cx.Prec() != want || uint8(cx.Mode()) != m {
							c.Fail(key, fmt.Sprintf("Prec() = %d Mode() = %v, want %d %s", cx.Prec(), cx.Mode(), want, modeName(m)))
							continue
						}
						z := new(Dec)
						pv, _ := protect(func() { cx.Mul(z, a.Build(), b.Build()) })
						exp := ModelMul(a.V, b.V, uint32(want), m)
						if msg := judgeFull(Observe(z), pv, false, exp, true); msg != "" {
							c.Fail(key+" Mul", msg)
						}
						// a product at the very bottom of the exponent range (representable: must not be flushed)
						lo := mkInt64(5, 0, 3, 0)
						lo.Exp, lo.V.E10 = MinExp, MinExp-DW
						half := mkInt64(5, -1, 3, 0)
						z3 := new(Dec)
						pv, _ = protect(func() { cx.Mul(z3, lo.Build(), half.Build()) })
						if msg := judgeFull(Observe(z3), pv, false, ModelMul(lo.V, half.V, uint32(want), m), true); msg != "" {
							c.Fail(key+" Mul at MinExp", msg)
						}
						// a difference that underflows: an inexact zero takes the sign of the exact result in every mode
						hi := mkInt64(15, 0, 3, 0)
						hi.Exp, hi.V.E10 = MinExp, MinExp-DW
						lw := mkInt64(14, 0, 3, 0)
						lw.Exp, lw.V.E10 = MinExp, MinExp-DW
						z4 := new(Dec)
						pv, _ = protect(func() { cx.Sub(z4, hi.Build(), lw.Build()) })
						if msg := judgeFull(Observe(z4), pv, false, ModelSub(hi.V, lw.V, uint32(want), m), true); msg != "" {
							c.Fail(key+" Sub underflowing at MinExp", msg)
						}
						z2 := buildPre(preLonger, 3, ToZero)
						pv, _ = protect(func() { cx.Add(z2, a.Build(), b.Build()) })
						exp = ModelAdd(a.V, b.V, uint32(want), m)
						if msg := judgeFull(Observe(z2), pv, false, exp, true); msg != "" {
							c.Fail(key+" Add", msg)
						}
						if o := Observe(z2); pv == nil && (uint(o.Prec) != want || o.Mode != m) {
							c.Fail(key+" Add attributes", fmt.Sprintf("result has precision %d mode %s", o.Prec, modeName(o.Mode)))
						}
					}
				}
			},
		})
	}
	// A3: the factories (one rounding of the exact argument to the context) and every operation on
	// every combination of operand classes (signs of zeros, infinities, NaN latch)
	{
		type fac struct {
			name string
			num  *big.Int
			den  *big.Int
			mk   func(cx *dctx.Context) *Dec
		}
		var facs []fac
		for _, nd := range [][2]string{{"1249", "2"}, {"-1249", "2"}, {"15", "7"}, {"1", "1006"}, {"22", "7"}, {"1", "3"}, {"-2", "3"}, {"123456789", "1000"}, {"99995", "10"}, {"12345678901234567890123", "7"}, {"1", "12345678901234567890123"}, {"999999999999", "1000001"}} {
			n, d := mustInt(nd[0]), mustInt(nd[1])
			facs = append(facs, fac{"NewRat(" + nd[0] + "/" + nd[1] + ")", n, d, func(cx *dctx.Context) *Dec { return cx.NewRat(new(big.Rat).SetFrac(n, d)) }})
		}
		for _, is := range []string{"1249", "-99995", "12345678901234567891", "-12345678901234567891", "18446744073709551615", "25", "0"} {
			n := mustInt(is)
			facs = append(facs, fac{"NewInt(" + is + ")", n, big1, func(cx *dctx.Context) *Dec { return cx.NewInt(new(big.Int).Set(n)) }})
			if n.IsInt64() {
				facs = append(facs, fac{"NewInt64(" + is + ")", n, big1, func(cx *dctx.Context) *Dec { return cx.NewInt64(n.Int64()) }})
			}
			if n.IsUint64() {
				facs = append(facs, fac{"NewUint64(" + is + ")", n, big1, func(cx *dctx.Context) *Dec { return cx.NewUint64(n.Uint64()) }})
			}
			facs = append(facs, fac{"NewString(" + is + "e-3)", n, big.NewInt(1000), func(cx *dctx.Context) *Dec { d, _ := cx.NewString(is + "e-3"); return d }})
			facs = append(facs, fac{"ParseDecimal(" + is + ")", n, big1, func(cx *dctx.Context) *Dec { d, _, _ := cx.ParseDecimal(is, 10); return d }})
		}
		// NewString detects the base from the text (base 0, as SetString does)
		for _, ls := range [][3]string{{"0x10", "16", "1"}, {"-0x1.8p1", "-3", "1"}, {"0b1011", "11", "1"}, {"0o17", "15", "1"}, {"1_000.5", "2001", "2"}, {"0x_ffp-2", "255", "4"}, {"1e1_0", "10000000000", "1"}} {
			lit := ls[0]
			facs = append(facs, fac{"NewString(" + lit + ")", mustInt(ls[1]), mustInt(ls[2]), func(cx *dctx.Context) *Dec { d, _ := cx.NewString(lit); return d }})
		}
		for _, fs := range []string{"1249.5", "-0.375", "99995", "4503599627370497"} {
			f, _, _ := big.ParseFloat(fs, 10, 200, big.ToNearestEven)
			r, _ := f.Rat(nil)
			facs = append(facs, fac{"NewFloat(" + fs + ")", r.Num(), r.Denom(), func(cx *dctx.Context) *Dec { return cx.NewFloat(f) }})
		}
		// NewFloat of big.Floats with few mantissa bits and exponents beyond the float64 range (a detour through
		// float64 flushes or saturates them); all of them are a power of two times a small integer: exact at 34 digits or judged for value only when inexact
		for _, bf := range []struct {
			mant int64
			prec uint
			exp  int
		}{{1, 53, -1100}, {1, 24, -1074}, {3, 53, -1075}, {1, 53, -1023}, {5, 10, -1200}, {1, 53, 1024}, {3, 53, 1100}, {-7, 8, -1090}, {-1, 53, 1500}, {1, 53, -1022}, {1, 53, 1023}} {
			f := new(big.Float).SetPrec(bf.prec).SetInt64(bf.mant)
			f.SetMantExp(f, bf.exp)
			r, _ := f.Rat(nil)
			facs = append(facs, fac{fmt.Sprintf("NewFloat(%d·2^%d, %d bits)", bf.mant, bf.exp, bf.prec), r.Num(), r.Denom(), func(cx *dctx.Context) *Dec { return cx.NewFloat(f) }})
		}
		fprecs := []uint{1, 2, 3, 5, 19, 20, 34}
		layers = append(layers, Layer{
			Name:   "A3-factories",
			Units:  len(facs),
			Bounds: fmt.Sprintf("%d factory calls (NewRat of 12 rationals whose numerator or denominator is longer than the precision, NewInt / NewInt64 / NewUint64 / NewString / ParseDecimal of 7 integers, NewString of 7 prefixed / separated literals, NewFloat of 4 binary-exact values and of 11 big.Floats of 8..53 bits with binary exponents beyond the float64 range, judged exactly when they fit and within 64 units otherwise) × context precision %v × 6 modes: the result is the exact argument rounded once, with truthful accuracy and the context's precision and mode", len(facs), fprecs),
			Run: func(c *Ctx, u int) {
				f := facs[u]
				for _, p := range fprecs {
					for _, m := range M6 {
						if c.Skip() {
							continue
						}
						c.NonTrivial()
						cx := dctx.New(p, decimal.RoundingMode(m))
						var z *Dec
						pv, _ := protect(func() { z = f.mk(&cx) })
						key := fmt.Sprintf("Context(prec %d, %s).%s", p, modeName(m), f.name)
						if pv != nil || z == nil {
							c.Fail(key, fmt.Sprintf("panic %v / nil result", pv))
							continue
						}
						var exp RRes
						if f.num.Sign() == 0 {
							exp = RRes{Form: fZero}
						} else {
							exp = PrepRat(new(big.Int).Abs(f.num), f.den, 0, uint32(p)).Apply(f.num.Sign() < 0, m)
						}
						o := Observe(z)
						// NewFloat: C15 bounds the error of an inexact conversion by a few dozen units; here only
						// the conversions that fit the precision are judged (they must be exact)
						if !strings.HasPrefix(f.name, "NewFloat") || exp.Acc == 0 {
							if msg := judgeFull(o, nil, false, exp, !strings.HasPrefix(f.name, "NewFloat")); msg != "" {
								c.Fail(key, msg)
							}
						}
						if strings.HasPrefix(f.name, "NewFloat") && exp.Acc != 0 {
							// inexact conversion: documented as naive, a few dozen units (C15); a wrong form, sign or decade is not that
							if o.Form != exp.Form || o.Neg != exp.Neg || (o.Form == fFinite && ulpDistance(o, exp.Val(), uint32(p)).Cmp(big.NewRat(64, 1)) > 0) {
								c.Fail(key, fmt.Sprintf("NewFloat: got %s, want %s within 64 units", o.String(), exp.String()))
							}
						}
						if uint(o.Prec) != p || o.Mode != m {
							c.Fail(key+" attributes", fmt.Sprintf("result has precision %d mode %s", o.Prec, modeName(o.Mode)))
						}
					}
				}
			},
		})
		cls := []*Opnd{mkSpecial(fZero, false, 5, 0), mkSpecial(fZero, true, 5, 0), mkSpecial(fInf, false, 5, 0), mkSpecial(fInf, true, 5, 0),
			mkInt64(3, 0, 5, 0), mkInt64(-3, 0, 5, 0), mkInt64(12345, -2, 9, 0), mkInt64(-4, 0, 5, 0)}
		type cop struct {
			name  string
			arity int
			run   func(cx *dctx.Context, z *Dec, a []*Dec)
			model func(v []Val, p uint32, m uint8) RRes
		}
		cops := []cop{
			{"Add", 2, func(cx *dctx.Context, z *Dec, a []*Dec) { cx.Add(z, a[0], a[1]) }, func(v []Val, p uint32, m uint8) RRes { return ModelAdd(v[0], v[1], p, m) }},
			{"Sub", 2, func(cx *dctx.Context, z *Dec, a []*Dec) { cx.Sub(z, a[0], a[1]) }, func(v []Val, p uint32, m uint8) RRes { return ModelSub(v[0], v[1], p, m) }},
			{"Mul", 2, func(cx *dctx.Context, z *Dec, a []*Dec) { cx.Mul(z, a[0], a[1]) }, func(v []Val, p uint32, m uint8) RRes { return ModelMul(v[0], v[1], p, m) }},
			{"Quo", 2, func(cx *dctx.Context, z *Dec, a []*Dec) { cx.Quo(z, a[0], a[1]) }, func(v []Val, p uint32, m uint8) RRes { return ModelQuo(v[0], v[1], p, m) }},
			{"FMA", 3, func(cx *dctx.Context, z *Dec, a []*Dec) { cx.FMA(z, a[0], a[1], a[2]) }, func(v []Val, p uint32, m uint8) RRes { return ModelFMA(v[0], v[1], v[2], p, m) }},
			{"Sqrt", 1, func(cx *dctx.Context, z *Dec, a []*Dec) { cx.Sqrt(z, a[0]) }, func(v []Val, p uint32, m uint8) RRes { return ModelSqrt(v[0], p, m) }},
			{"Set", 1, func(cx *dctx.Context, z *Dec, a []*Dec) { cx.Set(z, a[0]) }, func(v []Val, p uint32, m uint8) RRes { return RoundVal(v[0], p, m) }},
		}
		layers = append(layers, Layer{
			Name:   "A4-operand-classes",
			Units:  len(cops),
			Bounds: fmt.Sprintf("Context.Add/Sub/Mul/Quo/FMA/Sqrt/Set on every tuple of operands from {+0, −0, +Inf, −Inf, 3, −3, 123.45, −4} (8, 64 or 512 tuples), context precision {2, 7}, 6 modes, receiver fresh / previously −Inf / fresh with equal operands passed as the same variable: the result (sign of zeros, infinities) equals the reference; an invalid combination does not panic and latches ErrNaN: the next operation returns its receiver untouched, Err() returns the ErrNaN once and re-arms the context"),
			Run: func(c *Ctx, u int) {
				op := cops[u]
				n := 1
				for i := 0; i < op.arity; i++ {
					n *= len(cls)
				}
				for t := 0; t < n; t++ {
					idx := []int{t % len(cls), t / len(cls) % len(cls), t / len(cls) / len(cls) % len(cls)}[:op.arity]
					for _, p := range []uint{2, 7} {
						for _, m := range M6 {
							for rk := 0; rk < 3; rk++ {
								// rk == 2: operands of the same class are the same variable (x − x, x·x, FMA(x, x, x) …)
								repeated := false
								for a := range idx {
									for b := 0; b < a; b++ {
										repeated = repeated || idx[a] == idx[b]
									}
								}
								if rk == 2 && !repeated {
									continue
								}
								if c.Skip() {
									continue
								}
								c.NonTrivial()
								var args []*Dec
								var vals []Val
								desc := ""
								shared := map[int]*Dec{}
								for _, i := range idx {
									d := cls[i].Build()
									if rk == 2 {
										if sd, ok := shared[i]; ok {
											d = sd
										}
										shared[i] = d
									}
									args = append(args, d)
									vals = append(vals, cls[i].V)
									desc += " " + cls[i].String()
								}
								cx := dctx.New(p, decimal.RoundingMode(m))
								z := new(Dec)
								if rk == 1 {
									z = buildPre(preNegInf, 3, ToZero)
								}
								key := fmt.Sprintf("Context(prec %d, %s).%s%s receiver-kind=%d", p, modeName(m), op.name, desc, rk)
								pv, _ := protect(func() { op.run(&cx, z, args) })
								if pv != nil {
									c.Fail(key, fmt.Sprintf("panic: %v", pv))
									continue
								}
								exp := op.model(vals, uint32(p), m)
								if exp.NaN {
									// the invalid operation itself only has to leave a well-formed receiver; every LATER
									// operation must return its receiver untouched until Err() is called
									if msg := Canonical(Observe(z)); msg != "" {
										c.Fail(key, "receiver of the invalid operation malformed: "+msg)
									}
									three := mkInt64(3, 0, 5, 0).Build()
									w := buildPre(preInexact, 9, ToPositiveInf)
									before := Observe(w)
									pv, _ := protect(func() { cx.Mul(w, three, three) })
									if after := Observe(w); pv != nil || after.String() != before.String() {
										c.Fail(key, fmt.Sprintf("operation after the invalid one: panic %v, receiver %s -> %s (must stay untouched)", pv, before, after))
									}
									err := cx.Err()
									if err == nil {
										c.Fail(key, "invalid operation but Err() == nil; receiver "+Observe(z).String())
									} else if _, ok := err.(decimal.ErrNaN); !ok {
										c.Fail(key, fmt.Sprintf("Err() = %T, want decimal.ErrNaN", err))
									} else if again := cx.Err(); again != nil {
										c.Fail(key, "Err() returned the error twice")
									}
									cx.Mul(w, three, three)
									if msg := judgeFull(Observe(w), nil, false, ModelMul(Val{Form: fFinite, Coef: big.NewInt(3)}, Val{Form: fFinite, Coef: big.NewInt(3)}, uint32(p), m), true); msg != "" {
										c.Fail(key, "operation after Err(): "+msg)
									}
									continue
								}
								if err := cx.Err(); err != nil {
									c.Fail(key, fmt.Sprintf("Err() = %v for a valid operation", err))
									continue
								}
								if msg := judgeFull(Observe(z), nil, false, exp, op.name != "Sqrt"); msg != "" {
									c.Fail(key, msg)
								}
							}
						}
					}
				}
			},
		})
	}
	// A2: operands long enough for the recursive division and Karatsuba paths, into fresh receivers and
	// into receivers that held long values before (the context must deliver the correctly rounded
	// result whatever the receiver was)
	{
		type pair struct {
			name string
			x, y *Opnd
		}
		var ps []pair
		build := func() {
			if ps != nil {
				return
			}
			for _, n := range []int{100, 101, 128} {
				yw := make([]uint64, n)
				for i := range yw {
					yw[i] = (uint64(i)*7777777777777777 + 1234567890123456789) % BW
				}
				yw[n-1] = BW/2 + 12345
				y := mkWords(false, yw, 0, 0, 0)
				for _, k := range []int64{1, 3, 7} {
					for _, d := range []int64{0, 1, 5} {
						// x = k·y − d units in y's last place
						cx := new(big.Int).Mul(y.V.Coef, big.NewInt(k))
						cx.Sub(cx, big.NewInt(d))
						x := mkCoef(d%2 == 1, cx, y.V.E10, 0, 0)
						ps = append(ps, pair{fmt.Sprintf("x=%d·y−%d, y %d words", k, d, n), x, y})
					}
				}
				// quotient with a block of nines in the middle: x = q·y, q = 10^a − 10^b + 3
				for _, ab := range [][2]int64{{5900, 1900}, {7700, 2800}} {
					q := new(big.Int).Sub(p10(ab[0]), p10(ab[1]))
					q.Add(q, big.NewInt(3))
					x := mkCoef(false, new(big.Int).Mul(q, y.V.Coef), y.V.E10, 0, 0)
					ps = append(ps, pair{fmt.Sprintf("x=(10^%d−10^%d+3)·y, y %d words", ab[0], ab[1], n), x, y})
				}
			}
		}
		// A2b: a long operand whose only digit below the context precision sits far down
		stickyLens := []int{20, 39, 40, 41, 60, 106, 107, 150, 300}
		layers = append(layers, Layer{
			Name:   "A2b-far-sticky-digit-in-a-long-operand",
			Units:  len(stickyLens),
			Bounds: fmt.Sprintf("x = d0 0…0 1 with %v digits (d0 in {1, 25, 5}) and its negative; Context.Mul(x, 3), Mul(3, x), Quo(x, 4), Add(x, 3), Sub(x, 3), FMA(x, 3, 7), Set(x), Sqrt(x·x) at context precision {1, 2, 5, 19, 34} × 6 modes: the far digit must still decide rounding direction and accuracy", stickyLens),
			Run: func(c *Ctx, u int) {
				n := stickyLens[u]
				three := mkInt64(3, 0, 5, 0)
				four := mkInt64(4, 0, 5, 0)
				seven := mkInt64(7, 0, 5, 0)
				for _, d0 := range []string{"1", "25", "5"} {
					for _, neg := range []bool{false, true} {
						xo := mkCoef(neg, mustInt(d0+strings.Repeat("0", n-len(d0)-1)+"1"), int64(-(n - 1)), 0, 0)
						for _, cp := range []uint{1, 2, 5, 19, 34} {
							for _, m := range M6 {
								if c.Skip() {
									continue
								}
								c.NonTrivial()
								cx := dctx.New(cp, decimal.RoundingMode(m))
								key := fmt.Sprintf("Context(prec %d, %s) x=%s", cp, modeName(m), xo)
								try := func(name string, exp RRes, run func(z *Dec)) {
									z := buildPre(preInexact, 3, ToZero)
									pv, _ := protect(func() { run(z) })
									if msg := judgeFull(Observe(z), pv, false, exp, true); msg != "" {
										c.Fail(key+" "+name, msg)
									}
								}
								x := xo.Build()
								try("Mul(x,3)", ModelMul(xo.V, three.V, uint32(cp), m), func(z *Dec) { cx.Mul(z, x, three.Build()) })
								try("Mul(3,x)", ModelMul(three.V, xo.V, uint32(cp), m), func(z *Dec) { cx.Mul(z, three.Build(), x) })
								try("Quo(x,4)", ModelQuo(xo.V, four.V, uint32(cp), m), func(z *Dec) { cx.Quo(z, x, four.Build()) })
								try("Add(x,3)", ModelAdd(xo.V, three.V, uint32(cp), m), func(z *Dec) { cx.Add(z, x, three.Build()) })
								try("Sub(x,3)", ModelSub(xo.V, three.V, uint32(cp), m), func(z *Dec) { cx.Sub(z, x, three.Build()) })
								try("FMA(x,3,7)", ModelFMA(xo.V, three.V, seven.V, uint32(cp), m), func(z *Dec) { cx.FMA(z, x, three.Build(), seven.Build()) })
								try("Set(x)", RoundVal(xo.V, uint32(cp), m), func(z *Dec) { cx.Set(z, x) })
							}
						}
					}
				}
			},
		})
		// A2c: integers next to perfect squares around the binary boundaries (2^52..2^64): a shortcut through
		// float64 / uint64 arithmetic in a Context wrapper takes k²±1 for k², or 2^53+1 for 2^53
		nearK := binaryBoundaryRoots
		layers = append(layers, Layer{
			Name:   "A2c-near-squares-and-binary-boundary-integers",
			Units:  len(nearK),
			Bounds: fmt.Sprintf("x = (k² + d)·10^e for k in %v, d in {−1, 0, +1, +k}, e in {0, −2, 3, −7}; Context.Sqrt(x), Mul(x, 3), Add(x, 3), Quo(x, 4), Set(x) at context precision {8, 16, 17, 20, 34} × 6 modes, receiver previously inexact", nearK),
			Run: func(c *Ctx, u int) {
				k := big.NewInt(nearK[u])
				three := mkInt64(3, 0, 5, 0)
				four := mkInt64(4, 0, 5, 0)
				for _, d := range []int64{-1, 0, 1, nearK[u]} {
					cf := new(big.Int).Mul(k, k)
					cf.Add(cf, big.NewInt(d))
					for _, e := range []int64{0, -2, 3, -7} {
						xo := mkCoef(false, cf, e, 0, 0)
						for _, cp := range []uint{8, 16, 17, 20, 34} {
							for _, m := range M6 {
								if c.Skip() {
									continue
								}
								c.NonTrivial()
								cx := dctx.New(cp, decimal.RoundingMode(m))
								key := fmt.Sprintf("Context(prec %d, %s) x=%s", cp, modeName(m), xo)
								try := func(name string, exp RRes, wantAcc bool, run func(z *Dec)) {
									z := buildPre(preInexact, 3, ToZero)
									pv, _ := protect(func() { run(z) })
									if msg := judgeFull(Observe(z), pv, false, exp, wantAcc); msg != "" {
										c.Fail(key+" "+name, msg)
									}
								}
								x := xo.Build()
								try("Sqrt(x)", ModelSqrt(xo.V, uint32(cp), m), false, func(z *Dec) { cx.Sqrt(z, x) })
								try("Mul(x,3)", ModelMul(xo.V, three.V, uint32(cp), m), true, func(z *Dec) { cx.Mul(z, x, three.Build()) })
								try("Add(x,3)", ModelAdd(xo.V, three.V, uint32(cp), m), true, func(z *Dec) { cx.Add(z, x, three.Build()) })
								try("Quo(x,4)", ModelQuo(xo.V, four.V, uint32(cp), m), true, func(z *Dec) { cx.Quo(z, x, four.Build()) })
								try("Set(x)", RoundVal(xo.V, uint32(cp), m), true, func(z *Dec) { cx.Set(z, x) })
							}
						}
					}
				}
			},
		})
		precs := []uint{40, 600, 1300, 2500, 4800, 8000}
		layers = append(layers, Layer{
			Name:   "A2-long-operands",
			Units:  33,
			Bounds: fmt.Sprintf("Context.Quo / Mul / Sub(x, y) with y of 100, 101, 128 words and x = k·y − d (k ∈ {1,3,7}, d ∈ {0,1,5}) or x = (10^a − 10^b + 3)·y (quotient with 4000 / 4900 nines); context precision %v × modes Even/ToZero/AwayFromZero; receiver fresh / held 1500 nines / held 7000 digits of 7", precs),
			Run: func(c *Ctx, u int) {
				build()
				p := ps[u]
				for _, cp := range precs {
					for _, m := range []uint8{ToNearestEven, ToZero, AwayFromZero} {
						for rk := 0; rk < 3; rk++ {
							if c.Skip() {
								continue
							}
							cx := dctx.New(cp, decimal.RoundingMode(m))
							mk := func() *Dec {
								z := new(Dec)
								switch rk {
								case 1:
									z.SetPrec(1500).SetString(strings.Repeat("9", 1500))
								case 2:
									z.SetPrec(7000).SetString(strings.Repeat("7", 7000) + "e-5")
								}
								return z
							}
							x, y := p.x.Build(), p.y.Build()
							key := fmt.Sprintf("Context(prec %d, %s) %s receiver-kind=%d", cp, modeName(m), p.name, rk)
							c.NonTrivial()
							z := mk()
							pv, _ := protect(func() { cx.Quo(z, x, y) })
							if msg := judgeFull(Observe(z), pv, false, ModelQuo(p.x.V, p.y.V, uint32(cp), m), true); msg != "" {
								c.Fail(key+" Quo", msg)
							}
							z = mk()
							pv, _ = protect(func() { cx.Mul(z, x, y) })
							if msg := judgeFull(Observe(z), pv, false, ModelMul(p.x.V, p.y.V, uint32(cp), m), true); msg != "" {
								c.Fail(key+" Mul", msg)
							}
							z = mk()
							pv, _ = protect(func() { cx.Sub(z, x, y) })
							if msg := judgeFull(Observe(z), pv, false, ModelSub(p.x.V, p.y.V, uint32(cp), m), true); msg != "" {
								c.Fail(key+" Sub", msg)
							}
						}
					}
				}
			},
		})
	}
	return layers
}

func init() {
	register(&Property{
		ID: "C19", Level: "model_checking",
		Rule: "states = distinct (context, variables) states reached by Context call histories; every transition executes the real Context method and is compared with the latch automaton {armed, latched} × reference rounding; all transitions are non-trivial",
		Assumptions: []string{
			"receivers are distinct from operands (as the property requires)",
			"history depth 4 (quick) / 5 (thorough) over 133 instantiated calls",
			"NewFloat64's value is C15's subject (<= 1 ulp) and only its precision/mode are judged here",
		},
		Layers: ctxLayers,
		Stats: func(tier string) map[string]interface{} {
			sp := getCtxSpace()
			var sizes []int
			total := 0
			for _, l := range sp.levels {
				sizes = append(sizes, len(l))
				total += len(l)
			}
			return map[string]interface{}{"states": total, "bfs_distinct_states_per_level": sizes, "operations_in_menu": len(sp.ops),
				"states_explanation": "states = distinct (context precision, mode, latch, variables) states expanded by every call of the menu; transitions = executions of the real Context method"}
		},
	})
}
