package main

// Engine E1/E2 driver: a property is a list of layers; a layer is a number of
// independent units; every unit enumerates a finite set of cases completely.
// The parent process shards units over worker processes (a worker that dies
// of a fatal error cannot take the run with it), merges their reports,
// applies the known-findings file and writes evidence + replay files.

import (
	"bufio"
	"bytes"
	"crypto/sha256"
	"encoding/hex"
	"encoding/json"
	"fmt"
	"os"
	"os/exec"
	"path/filepath"
	"runtime/debug"
	"sort"
	"strconv"
	"strings"
	"sync"
	"sync/atomic"
	"time"
)

type Layer struct {
	Name   string
	Units  int
	Bounds string // human readable statement of what the layer enumerates
	Run    func(c *Ctx, unit int)
	// UnitLimit is the watchdog period for one unit (default 120 s): the unit is reported as hung when no
	// case completes during a whole period (cases normally take microseconds to seconds).
	// A unit that exceeds it is reported as non-terminating and the worker stops.
	UnitLimit time.Duration
}

type Property struct {
	ID          string
	Level       string // evidence level
	Rule        string // what makes a case distinct / non-trivial
	Assumptions []string
	Layers      func(tier string) []Layer
	// Stats, when set, returns additional coverage numbers computed by the property itself
	// (e.g. the number of distinct states of an explicit-state search); "states" overrides the default.
	Stats func(tier string) map[string]interface{}
	// OwnPool: the property installs its own scratch-pool adversary (C18's scheduler); otherwise every
	// worker runs all layers under the adversarial pool of advpool.go (garbage on Get, poison on Put).
	OwnPool bool
}

var registry = map[string]*Property{}

func register(p *Property) { registry[p.ID] = p }

type Failure struct {
	Layer  string `json:"layer"`
	Unit   int    `json:"unit"`
	Index  int64  `json:"index"`
	Key    string `json:"key"`    // stable semantic identity of the failing case
	Detail string `json:"detail"` // expected vs observed
	GoTest string `json:"go_test,omitempty"`
}

type LayerStat struct {
	Name       string `json:"name"`
	Bounds     string `json:"bounds"`
	Units      int    `json:"units"`
	UnitsDone  int    `json:"units_done"`
	Evals      int64  `json:"evaluations"`
	NonTrivial int64  `json:"nontrivial"`
	Fails      int64  `json:"failures"`
	Cut        bool   `json:"cut_by_deadline"`
}

// Ctx is the per-worker execution context.
type Ctx struct {
	prop     *Property
	tier     string
	layer    *Layer
	unit     int
	index    int64 // index of the current case inside the unit
	stat     *LayerStat
	deadline time.Time
	cut      bool

	// replay mode: execute only case (unit, target)
	replay bool
	target int64

	Fails      []Failure
	failKeys   map[string]bool
	TotalFails int64
	Samples    []string
	sampleNext int64
	Outcomes   *U64Set
	Extra      map[string]int64 // named counters (reach evidence, distinct classes)
	KnownCls   map[string]*KnownStat
	verbose    bool
}

// KnownStat aggregates failing cases that fall into a precisely described
// class of a recorded finding (the class predicate and the exact defective
// behaviour are checked by the property's code before calling Ctx.Known).
type KnownStat struct {
	Count   int64   `json:"count"`
	Example Failure `json:"example"`
}

// Known records a failing case that (a) belongs to the input class `class` and
// (b) shows exactly the defective behaviour recorded for that class. Whether it
// is suppressed is decided by the parent from KNOWN_FINDINGS.txt.
func (c *Ctx) Known(class, key, detail string) {
	ks := c.KnownCls[class]
	if ks == nil {
		ks = &KnownStat{Example: Failure{Layer: c.layer.Name, Unit: c.unit, Index: c.index, Key: key, Detail: detail}}
		c.KnownCls[class] = ks
	}
	ks.Count++
	if c.replay {
		fmt.Fprintf(os.Stderr, "KNOWN-CLASS %s key=%s\n   %s\n", class, key, detail)
	}
}

const maxFailsKept = 200

// Skip is called at the top of every enumerated case. It returns true when the
// case must not be executed (replay mode selecting another case, or deadline).
func (c *Ctx) Skip() bool {
	c.index++
	if c.replay {
		return c.index != c.target
	}
	if c.cut {
		return true
	}
	if c.index&1023 == 0 && time.Now().After(c.deadline) {
		c.cut = true
		c.stat.Cut = true
		return true
	}
	c.stat.Evals++
	return false
}

// Done reports whether enumeration of the current unit can stop early.
func (c *Ctx) Done() bool { return c.cut || (c.replay && c.index >= c.target) }

func (c *Ctx) NonTrivial() { c.stat.NonTrivial++ }

func (c *Ctx) Count(name string, n int64) { c.Extra[name] += n }

// Outcome records a hash of an observed outcome (for the distinct-outcome count).
func (c *Ctx) Outcome(h uint64) { c.Outcomes.Add(h) }

// Sample records a written-out case; only a sparse subset is kept.
func (c *Ctx) WantSample() bool {
	if c.replay {
		return true
	}
	if c.stat.Evals >= c.sampleNext && len(c.Samples) < 24 {
		return true
	}
	return false
}

func (c *Ctx) Sample(s string) {
	c.Samples = append(c.Samples, c.layer.Name+": "+s)
	if c.sampleNext == 0 {
		c.sampleNext = 1
	}
	c.sampleNext = c.stat.Evals*4 + 1
}

// Fail records a failing case. key is the stable identity used by the known
// findings file; detail says what was expected and what was observed.
func (c *Ctx) Fail(key, detail string) {
	c.stat.Fails++
	c.TotalFails++
	if c.failKeys[key] {
		return
	}
	if len(c.Fails) < maxFailsKept {
		c.failKeys[key] = true
		c.Fails = append(c.Fails, Failure{Layer: c.layer.Name, Unit: c.unit, Index: c.index, Key: key, Detail: detail})
	}
	if c.replay || c.verbose {
		fmt.Fprintf(os.Stderr, "FAIL %s unit=%d idx=%d key=%s\n   %s\n", c.layer.Name, c.unit, c.index, key, detail)
	}
}

// FailT is Fail plus the source of a plain go test that replays the case through the public API only.
func (c *Ctx) FailT(key, detail string, test func() string) {
	n := len(c.Fails)
	c.Fail(key, detail)
	if len(c.Fails) > n && test != nil {
		c.Fails[len(c.Fails)-1].GoTest = test()
	}
}

// U64Set is a capped open-addressing set of 64-bit hashes.
type U64Set struct {
	tab  []uint64
	n    int
	full bool
	zero bool
}

func NewU64Set(capacity int) *U64Set { return &U64Set{tab: make([]uint64, capacity)} }

func (s *U64Set) Add(h uint64) {
	if h == 0 {
		if !s.zero {
			s.zero = true
			s.n++
		}
		return
	}
	if s.full {
		return
	}
	m := uint64(len(s.tab) - 1)
	i := (h * 0x9E3779B97F4A7C15) >> 20 & m
	for {
		v := s.tab[i]
		if v == h {
			return
		}
		if v == 0 {
			s.tab[i] = h
			s.n++
			if s.n*2 > len(s.tab) {
				s.full = true
			}
			return
		}
		i = (i + 1) & m
	}
}

func fnv(parts ...uint64) uint64 {
	h := uint64(14695981039346656037)
	for _, p := range parts {
		for i := 0; i < 8; i++ {
			h ^= p & 0xff
			h *= 1099511628211
			p >>= 8
		}
	}
	return h
}

func fnvStr(h uint64, s string) uint64 {
	if h == 0 {
		h = 14695981039346656037
	}
	for i := 0; i < len(s); i++ {
		h ^= uint64(s[i])
		h *= 1099511628211
	}
	return h
}

// ---------------------------------------------------------------------------

type WorkerReport struct {
	Worker     int                   `json:"worker"`
	Layers     []LayerStat           `json:"layers"`
	Fails      []Failure             `json:"fails"`
	TotalFails int64                 `json:"total_fails"`
	Samples    []string              `json:"samples"`
	Outcomes   int                   `json:"outcomes"`
	OutFull    bool                  `json:"outcomes_saturated"`
	Extra      map[string]int64      `json:"extra"`
	Known      map[string]*KnownStat `json:"known"`
	Crash      string                `json:"crash,omitempty"`
}

func tierBudget(tier string) time.Duration {
	if v := os.Getenv("VERIF_BUDGET_S"); v != "" {
		if n, err := strconv.Atoi(v); err == nil {
			return time.Duration(n) * time.Second
		}
	}
	if tier == "thorough" {
		return 1500 * time.Second
	}
	return 150 * time.Second
}

func runWorker(p *Property, tier string, w, nw int, journal string) {
	debug.SetGCPercent(400)
	workerStart := time.Now() // the budget includes the construction of the state space
	layers, hang := layersWatched(p, tier)
	if hang != "" {
		fmt.Fprintln(os.Stderr, hang)
		os.Exit(3)
	}
	if !p.OwnPool {
		installAdvPool(64)
	}
	rep := WorkerReport{Worker: w, Extra: map[string]int64{}}
	c := &Ctx{prop: p, tier: tier, failKeys: map[string]bool{}, Outcomes: NewU64Set(1 << 22), Extra: rep.Extra, KnownCls: map[string]*KnownStat{}}
	c.verbose = os.Getenv("VERIF_VERBOSE") != ""
	c.deadline = workerStart.Add(tierBudget(tier))
	var jf *os.File
	if journal != "" {
		jf, _ = os.Create(journal)
	}
	uidx := 0
	for li := range layers {
		L := &layers[li]
		st := LayerStat{Name: L.Name, Bounds: L.Bounds, Units: L.Units}
		c.layer, c.stat = L, &st
		for u := 0; u < L.Units; u++ {
			uidx++
			if only := os.Getenv("VERIF_ONLY_LAYER"); only != "" && !strings.HasPrefix(L.Name, only) {
				continue // debugging aid (timing one layer); never set by the registered commands
			}
			if uidx%nw != w {
				continue
			}
			if c.cut {
				st.Cut = true
				continue
			}
			c.unit, c.index = u, 0
			if jf != nil {
				fmt.Fprintf(jf, "%s %d\n", L.Name, u)
				jf.Sync()
			}
			if hung := runUnitWatched(c, L, u); hung {
				// the stuck goroutine still owns c: report from copies and leave
				idx := atomic.LoadInt64(&c.index)
				st.Cut = true
				st.Fails++
				rep.Layers = append(rep.Layers, st)
				rep.Fails = append(append([]Failure(nil), c.Fails...), Failure{Layer: L.Name, Unit: u, Index: idx,
					Key:    fmt.Sprintf("%s/unit%d/idx%d/non-termination", L.Name, u, idx),
					Detail: fmt.Sprintf("the case did not terminate within %v (the code under test loops or blocks); the rest of this worker's units were not run", unitLimit(L))})
				rep.TotalFails = c.TotalFails + 1
				rep.Samples = c.Samples
				rep.Known = c.KnownCls
				b, _ := json.Marshal(rep)
				fmt.Printf("WORKER-REPORT %s\n", b)
				os.Exit(0)
			}
			if theAdvPool != nil && !p.OwnPool {
				for _, pr := range theAdvPool.takeProblems() {
					c.Fail(fmt.Sprintf("%s/unit%d/pool-protocol", L.Name, u), "scratch pool protocol violated during this unit: "+pr)
				}
			}
			if !c.cut {
				st.UnitsDone++
			}
		}
		rep.Layers = append(rep.Layers, st)
	}
	rep.Fails, rep.TotalFails, rep.Samples = c.Fails, c.TotalFails, c.Samples
	rep.Known = c.KnownCls
	rep.Outcomes, rep.OutFull = c.Outcomes.n, c.Outcomes.full
	out := bufio.NewWriter(os.Stdout)
	b, _ := json.Marshal(rep)
	out.WriteString("WORKER-REPORT ")
	out.Write(b)
	out.WriteString("\n")
	out.Flush()
}

func unitLimit(L *Layer) time.Duration {
	if v := os.Getenv("VERIF_UNIT_LIMIT_S"); v != "" {
		if n, err := strconv.Atoi(v); err == nil {
			return time.Duration(n) * time.Second
		}
	}
	if L.UnitLimit > 0 {
		return L.UnitLimit
	}
	return 120 * time.Second
}

// runUnitWatched runs one unit under a watchdog; it returns true if the unit did not finish.
func runUnitWatched(c *Ctx, L *Layer, u int) bool {
	done := make(chan struct{})
	go func() {
		defer close(done)
		runUnit(c, L, u)
	}()
	// The unit is hung when no case has completed during a whole limit period (a unit as such may
	// legitimately run for a long time: thorough schedule trees, far-apart operands).
	last := atomic.LoadInt64(&c.index)
	for {
		select {
		case <-done:
			return false
		case <-time.After(unitLimit(L)):
			cur := atomic.LoadInt64(&c.index)
			if cur == last {
				return true
			}
			last = cur
		}
	}
}

// runUnit runs one unit; a panic escaping a case (harness bug or a panic in
// code not wrapped by the property's own classifier) is recorded as a failure
// of that case rather than killing the worker.
func runUnit(c *Ctx, L *Layer, u int) {
	defer func() {
		if r := recover(); r != nil {
			c.Fail(fmt.Sprintf("%s/unit%d/idx%d/escaped-panic", L.Name, u, c.index), fmt.Sprintf("panic escaped the case wrapper: %v\n%s", r, trimStack(debug.Stack())))
		}
	}()
	L.Run(c, u)
}

func trimStack(b []byte) string {
	s := string(b)
	if len(s) > 1800 {
		s = s[:1800] + "..."
	}
	return s
}

// ---------------------------------------------------------------------------

type knownFinding struct {
	Prop    string
	ID      string
	What    string
	Keys    map[string]bool
	Classes map[string]bool
	seen    int64
}

func verifDir() string {
	if d := os.Getenv("VERIF_DIR"); d != "" {
		return d
	}
	exe, err := os.Executable()
	if err == nil {
		d := filepath.Dir(filepath.Dir(exe))
		if _, err := os.Stat(filepath.Join(d, "properties.jsonl")); err == nil {
			return d
		}
	}
	return "/verif"
}

// loadKnownFindings parses KNOWN_FINDINGS.txt. Lines:
//
//	finding: property=Cnn id=<slug> keys=<k1>|<k2>|... what=<free text>
//	fixed: property=Cnn <commit> <what failed>        (suppresses nothing)
func loadKnownFindings(prop string) []*knownFinding {
	var out []*knownFinding
	b, err := os.ReadFile(filepath.Join(verifDir(), "KNOWN_FINDINGS.txt"))
	if err != nil {
		return nil
	}
	for _, ln := range strings.Split(string(b), "\n") {
		ln = strings.TrimSpace(ln)
		if !strings.HasPrefix(ln, "finding:") {
			continue
		}
		kf := &knownFinding{Keys: map[string]bool{}, Classes: map[string]bool{}}
		rest := strings.TrimSpace(strings.TrimPrefix(ln, "finding:"))
		if i := strings.Index(rest, " what="); i >= 0 {
			kf.What = rest[i+6:]
			rest = rest[:i]
		}
		for _, f := range strings.Fields(rest) {
			switch {
			case strings.HasPrefix(f, "property="):
				kf.Prop = f[9:]
			case strings.HasPrefix(f, "id="):
				kf.ID = f[3:]
			case strings.HasPrefix(f, "keys="):
				for _, k := range strings.Split(f[5:], "|") {
					kf.Keys[k] = true
				}
			case strings.HasPrefix(f, "class="):
				kf.Classes[f[6:]] = true
			case strings.HasPrefix(f, "keyfile="):
				kb, err := os.ReadFile(filepath.Join(verifDir(), f[8:]))
				if err == nil {
					for _, k := range strings.Split(string(kb), "\n") {
						if k = strings.TrimSpace(k); k != "" {
							kf.Keys[k] = true
						}
					}
				}
			}
		}
		if kf.Prop == prop {
			out = append(out, kf)
		}
	}
	return out
}

type Evidence struct {
	PropertyID  string                 `json:"property_id"`
	Tier        string                 `json:"tier"`
	Seed        int64                  `json:"seed"`
	Level       string                 `json:"level"`
	Coverage    map[string]interface{} `json:"coverage"`
	Assumptions []string               `json:"assumptions"`
	WallS       float64                `json:"wall_s"`
	Violations  int                    `json:"violations"`
}

func seedFromEnv() int64 {
	if v := os.Getenv("VERIF_SEED"); v != "" {
		if n, err := strconv.ParseInt(v, 10, 64); err == nil {
			return n
		}
	}
	return 0
}

func numWorkers() int {
	if v := os.Getenv("VERIF_WORKERS"); v != "" {
		if n, err := strconv.Atoi(v); err == nil && n > 0 {
			return n
		}
	}
	return 16
}

// progressNote is set by long-running state-space constructions so that a watchdog can say where they were.
var progressNote atomic.Value

// layersWatched evaluates p.Layers(tier) under a watchdog: building the state space of an
// explicit-state search executes the code under test, which may loop forever after a change.
func layersWatched(p *Property, tier string) ([]Layer, string) {
	type res struct {
		ls  []Layer
		err string
	}
	ch := make(chan res, 1)
	go func() {
		defer func() {
			if r := recover(); r != nil {
				// building the value sets / the state space executes the code under test
				ch <- res{nil, fmt.Sprintf("constructing the case space panicked: %v\n%s", r, trimStack(debug.Stack()))}
			}
		}()
		ch <- res{p.Layers(tier), ""}
	}()
	limit := 300 * time.Second
	if v := os.Getenv("VERIF_LAYERS_LIMIT_S"); v != "" {
		if n, err := strconv.Atoi(v); err == nil {
			limit = time.Duration(n) * time.Second
		}
	}
	// hung = the same transition has been in progress for a whole period (a slow machine or a
	// large state space only makes the construction take longer, the note keeps changing)
	last, _ := progressNote.Load().(string)
	for {
		select {
		case r := <-ch:
			return r.ls, r.err
		case <-time.After(limit):
			note, _ := progressNote.Load().(string)
			if note == last {
				return nil, fmt.Sprintf("constructing the state space did not terminate: no transition completed within %v; last transition started: %s", limit, note)
			}
			last = note
		}
	}
}

// runParent shards the property over worker processes and merges.
func runParent(p *Property, tier string) int {
	start := time.Now()
	if _, hang := layersWatched(p, tier); hang != "" {
		vd := verifDir()
		os.MkdirAll(filepath.Join(vd, "replays"), 0o755)
		path := filepath.Join(vd, "replays", p.ID+"-nontermination.json")
		rb, _ := json.MarshalIndent(map[string]interface{}{"property": p.ID, "tier": tier, "key": "non-termination", "detail": hang}, "", " ")
		os.WriteFile(path, rb, 0o644)
		fmt.Printf("VIOLATION property=%s replay=%s\n  %s\n", p.ID, path, hang)
		return 1
	}
	nw := numWorkers()
	exe, _ := os.Executable()
	reports := make([]*WorkerReport, nw)
	var wg sync.WaitGroup
	var mu sync.Mutex
	var harnessErr []string
	for w := 0; w < nw; w++ {
		wg.Add(1)
		go func(w int) {
			defer wg.Done()
			rep, crash := spawnWorker(exe, p.ID, tier, w, nw, "")
			if rep == nil {
				// worker died: re-run with a journal to name the unit
				jpath := filepath.Join(os.TempDir(), fmt.Sprintf("verif-journal-%s-%d-%d", p.ID, os.Getpid(), w))
				rep2, crash2 := spawnWorker(exe, p.ID, tier, w, nw, jpath)
				jb, _ := os.ReadFile(jpath)
				os.Remove(jpath)
				if rep2 == nil {
					lines := strings.Split(strings.TrimSpace(string(jb)), "\n")
					last := lines[len(lines)-1]
					rep = &WorkerReport{Worker: w, Crash: crash2}
					rep.Fails = []Failure{{Layer: strings.Fields(last + " ?")[0], Key: "worker-crash/" + last, Detail: "worker process died (fatal error / timeout) while running unit '" + last + "': " + tail(crash2, 1500)}}
					rep.TotalFails = 1
					if f := strings.Fields(last); len(f) == 2 {
						rep.Fails[0].Unit, _ = strconv.Atoi(f[1])
					}
				} else {
					// flaky crash: harness problem, not a verdict
					mu.Lock()
					harnessErr = append(harnessErr, fmt.Sprintf("worker %d crashed once and then succeeded: %s", w, tail(crash, 600)))
					mu.Unlock()
					rep = rep2
				}
			}
			reports[w] = rep
		}(w)
	}
	wg.Wait()
	if len(harnessErr) > 0 {
		for _, e := range harnessErr {
			fmt.Fprintln(os.Stderr, "HARNESS-ERROR:", e)
		}
		return 2
	}

	// merge
	layers := p.Layers(tier)
	stats := make([]LayerStat, len(layers))
	for i, L := range layers {
		stats[i] = LayerStat{Name: L.Name, Bounds: L.Bounds, Units: L.Units}
	}
	var fails []Failure
	var total int64
	var samples []string
	extra := map[string]int64{}
	outMax, outSum, outFull := 0, 0, false
	known := map[string]*KnownStat{}
	for _, r := range reports {
		for cl, ks := range r.Known {
			if known[cl] == nil {
				known[cl] = &KnownStat{Example: ks.Example}
			}
			known[cl].Count += ks.Count
		}
		for i, ls := range r.Layers {
			if i < len(stats) {
				stats[i].Evals += ls.Evals
				stats[i].NonTrivial += ls.NonTrivial
				stats[i].Fails += ls.Fails
				stats[i].UnitsDone += ls.UnitsDone
				stats[i].Cut = stats[i].Cut || ls.Cut
			}
		}
		fails = append(fails, r.Fails...)
		total += r.TotalFails
		samples = append(samples, r.Samples...)
		for k, v := range r.Extra {
			extra[k] += v
		}
		if r.Outcomes > outMax {
			outMax = r.Outcomes
		}
		outSum += r.Outcomes
		outFull = outFull || r.OutFull
	}
	sort.SliceStable(fails, func(i, j int) bool {
		if fails[i].Layer != fails[j].Layer {
			return layerIndex(layers, fails[i].Layer) < layerIndex(layers, fails[j].Layer)
		}
		if fails[i].Unit != fails[j].Unit {
			return fails[i].Unit < fails[j].Unit
		}
		return fails[i].Index < fails[j].Index
	})
	var evals, nontriv int64
	exhaustive := true
	for _, s := range stats {
		evals += s.Evals
		nontriv += s.NonTrivial
		if s.Cut || s.UnitsDone < s.Units {
			exhaustive = false
		}
	}

	// known findings
	kfs := loadKnownFindings(p.ID)
	var viol []Failure
	for _, f := range fails {
		matched := false
		for _, kf := range kfs {
			if kf.Keys[f.Key] {
				kf.seen++
				matched = true
				break
			}
		}
		if !matched {
			viol = append(viol, f)
		}
	}
	var classes []string
	for cl := range known {
		classes = append(classes, cl)
	}
	sort.Strings(classes)
	for _, cl := range classes {
		ks := known[cl]
		listed := false
		for _, kf := range kfs {
			if kf.Classes[cl] {
				kf.seen += ks.Count
				listed = true
			}
		}
		if !listed {
			f := ks.Example
			f.Detail = fmt.Sprintf("[class %s, %d cases; not listed in KNOWN_FINDINGS.txt] %s", cl, ks.Count, f.Detail)
			viol = append(viol, f)
			total += ks.Count
		}
	}
	var kfLines []string
	for _, kf := range kfs {
		if kf.seen > 0 {
			ln := fmt.Sprintf("KNOWN-FINDING: property=%s %s (%s; %d listed case(s) reproduced)", p.ID, kf.What, kf.ID, kf.seen)
			fmt.Println(ln)
			kfLines = append(kfLines, ln)
		}
	}

	// replay files
	vd := verifDir()
	os.MkdirAll(filepath.Join(vd, "replays"), 0o755)
	os.MkdirAll(filepath.Join(vd, "evidence"), 0o755)
	printed := 0
	for _, f := range viol {
		if printed >= 8 {
			break
		}
		h := sha256.Sum256([]byte(f.Key))
		path := filepath.Join(vd, "replays", fmt.Sprintf("%s-%s.json", p.ID, hex.EncodeToString(h[:6])))
		rb, _ := json.MarshalIndent(map[string]interface{}{
			"property": p.ID, "tier": tier, "layer": f.Layer, "unit": f.Unit, "index": f.Index,
			"key": f.Key, "detail": f.Detail, "go_test": f.GoTest,
			"replay_cmd": fmt.Sprintf("scripts/check.sh %s replay %s", p.ID, path),
		}, "", " ")
		os.WriteFile(path, rb, 0o644)
		fmt.Printf("VIOLATION property=%s replay=%s\n", p.ID, path)
		fmt.Printf("  case: %s\n  %s\n", f.Key, strings.ReplaceAll(f.Detail, "\n", "\n  "))
		printed++
	}

	if len(samples) > 40 {
		step := len(samples) / 40
		var s2 []string
		for i := 0; i < len(samples); i += step {
			s2 = append(s2, samples[i])
		}
		samples = s2
	}
	if len(samples) == 0 {
		samples = []string{"(no sample recorded)"}
	}
	cov := map[string]interface{}{
		"evaluations":                   evals,
		"distinct_nontrivial":           nontriv,
		"rule":                          p.Rule,
		"samples":                       samples,
		"states":                        evals,
		"transitions":                   evals,
		"traces_validated_against_impl": evals,
		"exhaustive":                    exhaustive,
		"layers":                        stats,
		"distinct_outcomes_lower_bound": outMax,
		"distinct_outcomes_upper_bound": outSum,
		"outcome_set_saturated":         outFull,
		"counters":                      extra,
		"failing_cases_total":           total,
		"known_findings_matched":        kfLines,
		"known_finding_classes":         known,
		"workers":                       nw,
		"explanation":                   "states = distinct enumerated cases (operation + operands + receiver state; the enumerators de-duplicate by construction); transitions = executions of the real operation, one per state; every transition is compared with the reference model, hence traces_validated_against_impl = transitions.",
	}
	if p.Stats != nil {
		for k, v := range p.Stats(tier) {
			cov[k] = v
		}
	}
	if xp := os.Getenv("VERIF_EXTRA_EVIDENCE"); xp != "" {
		if xb, err := os.ReadFile(xp); err == nil {
			var xv interface{}
			if json.Unmarshal(xb, &xv) == nil {
				cov["extra"] = xv
				if m, ok := xv.(map[string]interface{}); ok {
					if rp, ok := m["race_pass"].(map[string]interface{}); ok {
						if n, ok := rp["data_races_reported"].(float64); ok && n > 0 {
							viol = append(viol, Failure{Layer: "race-pass", Key: "data-race", Detail: "see VIOLATION line printed by scripts/check.sh"})
						}
					}
					if id, ok := m["identical"].(bool); ok && !id {
						viol = append(viol, Failure{Layer: "transcripts", Key: "transcript-mismatch", Detail: "see VIOLATION line printed by scripts/transcripts.sh"})
					}
				}
			}
		}
	}
	ev := Evidence{PropertyID: p.ID, Tier: tier, Seed: seedFromEnv(), Level: p.Level, Coverage: cov,
		Assumptions: p.Assumptions, WallS: time.Since(start).Seconds(), Violations: len(viol)}
	eb, _ := json.MarshalIndent(ev, "", " ")
	evDir := filepath.Join(vd, "evidence")
	if d := os.Getenv("VERIF_EVIDENCE_DIR"); d != "" {
		// seed runs against a scratch copy of the repository must not overwrite the evidence of /repo
		evDir = d
		os.MkdirAll(evDir, 0o755)
	}
	os.WriteFile(filepath.Join(evDir, p.ID+".json"), eb, 0o644)

	fmt.Printf("%s tier=%s evaluations=%d nontrivial=%d distinct_outcomes>=%d failing=%d violations=%d exhaustive=%v wall=%.1fs\n",
		p.ID, tier, evals, nontriv, outMax, total, len(viol), exhaustive, time.Since(start).Seconds())
	for _, s := range stats {
		fmt.Printf("  layer %-28s units=%d/%d evals=%d nontrivial=%d fails=%d cut=%v\n", s.Name, s.UnitsDone, s.Units, s.Evals, s.NonTrivial, s.Fails, s.Cut)
		if s.Fails > 0 {
			n := 0
			for _, f := range fails {
				if f.Layer == s.Name && n < 3 {
					fmt.Printf("      first failing: %s\n         %s\n", f.Key, strings.ReplaceAll(f.Detail, "\n", "\n         "))
					n++
				}
			}
		}
	}
	if len(viol) > 0 {
		return 1
	}
	if evals == 0 {
		fmt.Fprintln(os.Stderr, "HARNESS-ERROR: nothing was evaluated")
		return 2
	}
	return 0
}

func layerIndex(ls []Layer, name string) int {
	for i, l := range ls {
		if l.Name == name {
			return i
		}
	}
	return len(ls)
}

func tail(s string, n int) string {
	if len(s) > n {
		return "..." + s[len(s)-n:]
	}
	return s
}

func spawnWorker(exe, id, tier string, w, nw int, journal string) (*WorkerReport, string) {
	args := []string{id, "--tier", tier, "--worker", strconv.Itoa(w), "--workers", strconv.Itoa(nw)}
	if journal != "" {
		args = append(args, "--journal", journal)
	}
	cmd := exec.Command(exe, args...)
	cmd.Env = append(os.Environ(), "GOMAXPROCS=2", "GOMEMLIMIT=3GiB")
	var stdout, stderr bytes.Buffer
	cmd.Stdout, cmd.Stderr = &stdout, &stderr
	done := make(chan error, 1)
	if err := cmd.Start(); err != nil {
		return nil, "cannot start worker: " + err.Error()
	}
	go func() { done <- cmd.Wait() }()
	// last resort only: hangs are detected inside the worker (per-unit and state-space watchdogs, which
	// look at progress); a slow or busy machine must not turn into a verdict
	limit := 2*tierBudget(tier) + 900*time.Second
	var err error
	select {
	case err = <-done:
	case <-time.After(limit):
		cmd.Process.Kill()
		<-done
		return nil, fmt.Sprintf("worker exceeded %v (non-termination?)\n%s", limit, tail(stderr.String(), 1500))
	}
	if s := stderr.String(); s != "" && os.Getenv("VERIF_VERBOSE") != "" {
		fmt.Fprint(os.Stderr, s)
	}
	for _, ln := range strings.Split(stdout.String(), "\n") {
		if strings.HasPrefix(ln, "WORKER-REPORT ") {
			var rep WorkerReport
			if json.Unmarshal([]byte(ln[14:]), &rep) == nil {
				return &rep, ""
			}
		}
	}
	msg := ""
	if err != nil {
		msg = err.Error() + "\n"
	}
	return nil, msg + tail(stderr.String(), 3000)
}

// runReplay re-executes exactly one recorded case.
func runReplay(p *Property, path string) int {
	b, err := os.ReadFile(path)
	if err != nil {
		fmt.Fprintln(os.Stderr, "HARNESS-ERROR:", err)
		return 2
	}
	var r struct {
		Tier  string `json:"tier"`
		Layer string `json:"layer"`
		Unit  int    `json:"unit"`
		Index int64  `json:"index"`
		Key   string `json:"key"`
	}
	if err := json.Unmarshal(b, &r); err != nil {
		fmt.Fprintln(os.Stderr, "HARNESS-ERROR:", err)
		return 2
	}
	layers := p.Layers(r.Tier)
	for li := range layers {
		L := &layers[li]
		if L.Name != r.Layer {
			continue
		}
		st := LayerStat{Name: L.Name}
		c := &Ctx{prop: p, tier: r.Tier, layer: L, stat: &st, unit: r.Unit, replay: true, target: r.Index,
			failKeys: map[string]bool{}, Outcomes: NewU64Set(1 << 10), Extra: map[string]int64{}, KnownCls: map[string]*KnownStat{}}
		c.deadline = time.Now().Add(time.Hour)
		if !p.OwnPool {
			installAdvPool(64)
		}
		if runUnitWatched(c, L, r.Unit) {
			fmt.Printf("VIOLATION property=%s replay=%s\n  case: %s\n  the recorded case does not terminate within %v\n", p.ID, path, r.Key, unitLimit(L))
			return 1
		}
		if c.TotalFails > 0 {
			fmt.Printf("VIOLATION property=%s replay=%s\n", p.ID, path)
			for _, f := range c.Fails {
				fmt.Printf("  case: %s\n  %s\n", f.Key, f.Detail)
			}
			return 1
		}
		// the case is identified by (layer, unit, index); make sure the enumeration still produces the recorded key there
		matched := len(c.Samples) == 0
		for _, s := range c.Samples {
			if strings.Contains(s, r.Key) {
				matched = true
			}
		}
		if !matched {
			fmt.Printf("replay of %s: the enumeration has changed since this file was recorded (position %s/%d/%d now holds another case: %v); re-run the check to obtain a fresh replay file\n", path, r.Layer, r.Unit, r.Index, c.Samples)
			return 2
		}
		fmt.Printf("replay of %s: case passes on this tree (key %s)\n", path, r.Key)
		return 0
	}
	fmt.Fprintln(os.Stderr, "HARNESS-ERROR: layer not found:", r.Layer)
	return 2
}
