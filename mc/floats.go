package main

// C15: binary floating-point conversions.

import (
	"fmt"
	"math"
	"math/big"
	"strings"

	"github.com/db47h/decimal"
)

// ratOfVal converts a finite Val with moderate exponent to a big.Rat.
func ratOfVal(v Val) *big.Rat {
	r := new(big.Rat).SetInt(v.Coef)
	if v.E10 >= 0 {
		r.Mul(r, new(big.Rat).SetInt(p10(v.E10)))
	} else {
		r.Quo(r, new(big.Rat).SetInt(p10(-v.E10)))
	}
	if v.Neg {
		r.Neg(r)
	}
	return r
}

// exactOfFloat returns the exact decimal value of a finite float64.
func exactOfFloat(f float64) Val {
	if f == 0 {
		return Val{Form: fZero, Neg: math.Signbit(f)}
	}
	m, e := math.Frexp(math.Abs(f))
	mi := int64(m * (1 << 53))
	e -= 53
	c := big.NewInt(mi)
	var v Val
	if e >= 0 {
		v = Val{Form: fFinite, Coef: c.Lsh(c, uint(e)), E10: 0}
	} else {
		// mi × 2^e = mi × 5^-e × 10^e
		p5 := new(big.Int).Exp(big.NewInt(5), big.NewInt(int64(-e)), nil)
		v = Val{Form: fFinite, Coef: c.Mul(c, p5), E10: int64(e)}
	}
	v.Neg = f < 0
	return v.Norm()
}

func exactOfBigFloat(x *big.Float) Val {
	if x.Sign() == 0 {
		return Val{Form: fZero, Neg: x.Signbit()}
	}
	if x.IsInf() {
		return Val{Form: fInf, Neg: x.Signbit()}
	}
	r, _ := x.Rat(nil)
	v, ok := ratRepresentable(r, 1<<30)
	if !ok {
		panic("exactOfBigFloat")
	}
	return v
}

// ulpDistance returns |a − b| in units of 10^(exp(b) − prec) as a rational.
func ulpDistance(o Obs, want Val, prec uint32) *big.Rat {
	a, b := o.Val(), want
	d := addExact(a, negVal(b))
	if d.Form == fZero {
		return new(big.Rat)
	}
	ue := want.Exp() - int64(prec) // exponent of one unit in the last place
	r := new(big.Rat).SetInt(d.Coef)
	sh := d.E10 - ue
	if sh >= 0 {
		r.Mul(r, new(big.Rat).SetInt(p10(sh)))
	} else {
		r.Quo(r, new(big.Rat).SetInt(p10(-sh)))
	}
	return r
}

func setFloatJudge(c *Ctx, key func() string, z *Dec, pv interface{}, ex Val, prec uint32, mode uint8, tol int64) {
	if pv != nil {
		c.Fail(key(), fmt.Sprintf("panic: %v", pv))
		return
	}
	o := Observe(z)
	c.Outcome(o.Hash())
	if msg := Canonical(o); msg != "" {
		c.Fail(key(), "malformed result: "+msg)
		return
	}
	if o.Prec != prec || o.Mode != mode {
		c.Fail(key(), fmt.Sprintf("receiver attributes: %s, want prec %d mode %d", o, prec, mode))
		return
	}
	if c.prop.ID == "C09" {
		c.NonTrivial()
		return // attribute judge only
	}
	if ex.Form != fFinite {
		if o.Form != ex.Form || o.Neg != ex.Neg {
			c.Fail(key(), fmt.Sprintf("got %s, want %s", o, ex))
		}
		return
	}
	if o.Neg != ex.Neg {
		c.Fail(key(), fmt.Sprintf("sign lost: got %s, want %s", o, ex))
		return
	}
	if ndigits(ex.Coef) <= int64(prec) {
		// full expansion fits: must be exact
		if o.Form != fFinite || !o.Val().Equal(ex) {
			c.Fail(key(), fmt.Sprintf("binary value fits the precision but is not stored exactly: got %s, want %s", o.Val(), ex))
		}
		return
	}
	c.NonTrivial()
	want := RoundVal(ex, prec, mode)
	if o.Form != fFinite || want.Form != fFinite {
		if o.Form != want.Form {
			c.Fail(key(), fmt.Sprintf("got %s, want %s", o, want))
		}
		return
	}
	d := ulpDistance(o, want.Val(), prec)
	if d.Cmp(new(big.Rat).SetInt64(tol)) > 0 {
		c.Fail(key(), fmt.Sprintf("%s units in the last place away from the correctly rounded value (tolerance %d): got %s, correctly rounded %s", d.FloatString(2), tol, o.Val().Norm(), want.Val().Norm()))
	}
}

func floatMantissas() []uint64 {
	return []uint64{0, 1, 1<<52 - 1, 1 << 51, 1<<51 + 1, 1<<51 - 1, 0xAAAAAAAAAAAAA, 0x5555555555555, 0x1999999999999A & (1<<52 - 1), 0x8000000000001 & (1<<52 - 1), 0xFFFFFFFFFFFFE, 0x0000000000002, 0x921FB54442D18 & (1<<52 - 1), 0x3333333333333, 0xC000000000000, 0x0001000000000}
}

// nearest checks Float64/Float32 of a finite decimal value against big.Rat.
func nearestCase(c *Ctx, xo *Opnd, tag string) {
	if c.Skip() {
		return
	}
	x := xo.Build()
	key := func(op string) string { return fmt.Sprintf("%s x=%s@exp%d %s", op, xo, xo.Exp, tag) }
	nontrivialCounted := false
	for _, is32 := range []bool{false, true} {
		var got float64
		var acc decimal.Accuracy
		pv, _ := protect(func() {
			if is32 {
				var g float32
				g, acc = x.Float32()
				got = float64(g)
			} else {
				got, acc = x.Float64()
			}
		})
		name := "Float64"
		if is32 {
			name = "Float32"
		}
		if pv != nil {
			c.Fail(key(name), fmt.Sprintf("panic: %v", pv))
			continue
		}
		var want float64
		var wacc int8
		v := xo.V
		switch {
		case v.Form == fZero:
			want = math.Copysign(0, b2f(v.Neg))
		case v.Form == fInf:
			want = math.Inf(1)
			if v.Neg {
				want = math.Inf(-1)
			}
		case xo.Exp > 420:
			want, wacc = math.Inf(1), 1
			if v.Neg {
				want, wacc = math.Inf(-1), -1
			}
		case xo.Exp < -420:
			want, wacc = 0, -1
			if v.Neg {
				want, wacc = math.Copysign(0, -1), 1
			}
		default:
			r := ratOfVal(v)
			if is32 {
				w, _ := r.Float32()
				want = float64(w)
			} else {
				want, _ = r.Float64()
			}
			// accuracy = sign(returned − x), computed here (Rat's own exact flag is not relied upon)
			if math.IsInf(want, 0) {
				wacc = 1
				if want < 0 {
					wacc = -1
				}
			} else {
				wacc = int8(new(big.Rat).SetFloat64(want).Cmp(r))
			}
			if wacc != 0 && !nontrivialCounted {
				nontrivialCounted = true
				c.NonTrivial()
			}
			// independent check of 'nearest': no neighbouring float is closer
			if !math.IsInf(want, 0) {
				d0 := new(big.Rat).Sub(new(big.Rat).SetFloat64(want), r)
				d0.Abs(d0)
				for _, dir := range []float64{math.Inf(1), math.Inf(-1)} {
					var nb float64
					if is32 {
						nb = float64(math.Nextafter32(float32(want), float32(dir)))
					} else {
						nb = math.Nextafter(want, dir)
					}
					if math.IsInf(nb, 0) {
						continue
					}
					d1 := new(big.Rat).Sub(new(big.Rat).SetFloat64(nb), r)
					d1.Abs(d1)
					if d1.Cmp(d0) < 0 {
						panic(fmt.Sprintf("oracle: big.Rat conversion of %s is not nearest (%v vs %v)", r.FloatString(30), want, nb))
					}
				}
			}
		}
		c.Outcome(math.Float64bits(got))
		msg := ""
		if math.Float64bits(got) != math.Float64bits(want) {
			msg = fmt.Sprintf("got %v (%#x), nearest is %v (%#x)", got, math.Float64bits(got), want, math.Float64bits(want))
		} else if int8(acc) != wacc {
			msg = fmt.Sprintf("value %v correct but accuracy %v, want %d", got, acc, wacc)
		}
		if msg != "" {
			if v.Form == fFinite && xo.Exp <= 420 && xo.Exp >= -420 && doubleRoundingClass(xo, ratOfVal(v), got, want, is32) {
				c.Known("float-double-rounding", key(name), msg)
			} else {
				c.Fail(key(name), msg)
			}
		}
	}
	if msg := xo.CheckBuilt(x); msg != "" {
		c.Fail(key("operand"), "x modified: "+msg)
	}
	if c.WantSample() {
		c.Sample(key("Float64/Float32"))
	}
}

// doubleRoundingClass recognises the recorded finding "float-double-rounding":
// input class: x lies within a relative distance of 2^-60 of a float (of the
// target format) or of the midpoint between two adjacent floats, i.e. inside
// the window in which the 64-bit big.Float intermediate used by Float64/Float32
// cannot tell on which side x is; recorded defective behaviour: the returned
// value is still one of the two floats that bracket x (faithful rounding, never
// more than one unit off) but may be the second nearest, and the accuracy is
// then reported relative to the intermediate instead of x.
func doubleRoundingClass(xo *Opnd, r *big.Rat, got, want float64, is32 bool) bool {
	if math.IsNaN(got) || math.IsInf(got, 0) || math.IsInf(want, 0) {
		return false
	}
	// the mechanism of the finding is an inexact 64-bit intermediate. Float64 builds it as
	// (mantissa words as an integer, rounded to 65 bits) × or ÷ (5^|e| rounded to 64 bits), rounded to
	// 65 and then to 64 bits: when the odd part of the mantissa integer fits 65 bits, 5^|e| fits 64
	// bits (|e| <= 27) and x itself fits 64 bits, every step is exact and the finding cannot apply
	if xo != nil && xo.Form == fFinite {
		i := wordsToInt(xo.Words)
		if tz := i.TrailingZeroBits(); tz > 0 {
			i = new(big.Int).Rsh(i, tz)
		}
		e := xo.Exp - int64(len(xo.Words))*DW
		if e < 0 {
			e = -e
		}
		if f := new(big.Float).SetPrec(64).SetRat(r); i.BitLen() <= 65 && e <= 27 && f.Acc() == big.Exact {
			return false
		}
	}
	next := func(f, dir float64) float64 {
		if is32 {
			return float64(math.Nextafter32(float32(f), float32(dir)))
		}
		return math.Nextafter(f, dir)
	}
	// bracket of x: lo <= x <= hi, adjacent floats (lo == hi when x is a float)
	lo, hi := want, want
	switch new(big.Rat).SetFloat64(want).Cmp(r) {
	case -1:
		hi = next(want, math.Inf(1))
	case 1:
		lo = next(want, math.Inf(-1))
	default:
		lo, hi = next(want, math.Inf(-1)), next(want, math.Inf(1))
	}
	if math.IsInf(lo, 0) || math.IsInf(hi, 0) {
		return false
	}
	if got != lo && got != hi && got != want {
		return false // more than one unit off: not this finding
	}
	near := func(p *big.Rat) bool {
		d := new(big.Rat).Sub(r, p)
		d.Abs(d)
		lim := new(big.Rat).Abs(r)
		lim.Quo(lim, new(big.Rat).SetInt(new(big.Int).Lsh(big1, 60)))
		if is32 {
			return false // Float32 converts exactly; nothing is attributed to the finding
		}
		return d.Cmp(lim) <= 0
	}
	rl, rh, rw := new(big.Rat).SetFloat64(lo), new(big.Rat).SetFloat64(hi), new(big.Rat).SetFloat64(want)
	mid := new(big.Rat).Add(rl, rh)
	mid.Quo(mid, big.NewRat(2, 1))
	return near(mid) || near(rw) || near(rl) || near(rh)
}

func b2f(b bool) float64 {
	if b {
		return -1
	}
	return 1
}

func valOfRat(r *big.Rat, digits int64) *Opnd {
	// decimal approximation is not acceptable here: only used for rationals with finite expansion
	v, ok := ratRepresentable(r, 1<<30)
	if !ok {
		panic("valOfRat: not a decimal fraction")
	}
	if v.Form == fZero {
		return mkSpecial(fZero, false, 34, 0)
	}
	return mkCoef(v.Neg, v.Coef, v.E10, uint32(ndigits(v.Coef))+1, 0)
}

// binStr prints a big.Float as mantissa×2^exp (Text would expand up to 10^9 decimal digits for huge exponents).
func binStr(f *big.Float) string {
	if f.IsInf() || f.Sign() == 0 {
		return f.Text('g', 5)
	}
	m := new(big.Float)
	e := f.MantExp(m)
	return fmt.Sprintf("%s×2^%d", m.Text('g', 25), e)
}

func floatLayers(tier string) []Layer {
	thorough := tier == "thorough"
	var layers []Layer
	mants := floatMantissas()
	// H1: SetFloat64
	{
		precs := []uint32{0, 1, 2, 3, 5, 15, 16, 17, 18, 34, 60, 770, 800}
		modes := []uint8{ToNearestEven, ToZero, ToPositiveInf}
		if thorough {
			modes = M6
		}
		layers = append(layers, Layer{
			Name:   "H1-SetFloat64",
			Units:  2047,
			Bounds: fmt.Sprintf("SetFloat64 of every biased exponent 0..2046 (subnormals incl.) × %d mantissa patterns × ± × precision %v (0 → 17) × modes %v: sign kept, exact when the expansion fits, else <= 1 ulp from the correctly rounded value; plus ±0, ±Inf, NaN (ErrNaN)", len(mants), precs, modes),
			Run: func(c *Ctx, u int) {
				for mi, m := range mants {
					if !thorough && u%8 != mi%8 && u > 70 && u < 1980 && (u < 1000 || u > 1100) {
						continue // quick: every exponent with 2 of the 16 patterns, all patterns near the ends and around 1
					}
					bits := uint64(u)<<52 | m
					for _, neg := range []bool{false, true} {
						if neg {
							bits |= 1 << 63
						}
						f := math.Float64frombits(bits)
						ex := exactOfFloat(f)
						ps := precs
						if f == math.Trunc(f) && math.Abs(f) >= 1 {
							// integers need no division: also into receivers whose precision attribute is at the top of the range
							ps = append(append([]uint32{}, precs...), math.MaxUint32, math.MaxUint32-1)
						}
						for _, p := range ps {
							for _, md := range modes {
								if c.Skip() {
									continue
								}
								z := buildPre(preFresh, p, md)
								pv, _ := protect(func() { z.SetFloat64(f) })
								ep := p
								if ep == 0 {
									ep = 17
								}
								setFloatJudge(c, func() string { return fmt.Sprintf("SetFloat64(%v = %#x) prec=%d mode=%s", f, bits, p, modeName(md)) }, z, pv, ex, ep, md, 1)
							}
						}
					}
				}
				if u == 0 {
					for _, f := range []float64{math.Inf(1), math.Inf(-1)} {
						if !c.Skip() {
							z := buildPre(preLonger, 5, ToZero)
							pv, _ := protect(func() { z.SetFloat64(f) })
							setFloatJudge(c, func() string { return fmt.Sprintf("SetFloat64(%v)", f) }, z, pv, Val{Form: fInf, Neg: f < 0}, 5, ToZero, 1)
						}
					}
					if !c.Skip() {
						z := buildPre(preLonger, 5, ToZero)
						pv, isNaN := protect(func() { z.SetFloat64(math.NaN()) })
						if pv == nil || !isNaN {
							c.Fail("SetFloat64(NaN)", fmt.Sprintf("expected ErrNaN panic, got %v", pv))
						} else if msg := Canonical(Observe(z)); msg != "" {
							c.Fail("SetFloat64(NaN)", "receiver malformed after the panic: "+msg)
						}
					}
				}
			},
		})
	}
	// H2: SetFloat
	{
		fprecs := []uint{1, 24, 53, 64, 200, 2000, 13301, 26602} // the last two: ⌈p·log10 2⌉ differs from ⌈p·0.30103⌉
		fexps := []int{-3000, -1074, -64, -1, 0, 1, 63, 64, 1023, 3000}
		bmants := []string{"1", "1.1", "1.0000000000000000000001", "1.1111111111111111111111111111111111111111111111111111", "1.01010101010101", "1.11111111", "1.000000000000000000000000000000000000000000000000000000000000001", "1.1001001000011111101101010100010001000010110100011", "1." + strings.Repeat("0", 125) + "1", "1." + strings.Repeat("1", 189)}
		layers = append(layers, Layer{
			Name:   "H2-SetFloat",
			Units:  len(fprecs) * len(fexps),
			Bounds: fmt.Sprintf("SetFloat(x) for big.Float precision %v × binary exponents %v × 10 mantissa bit patterns (1..190 significant bits) × ± and ±0, ±Inf; receiver precision {0,1,5,17,34,100,1000} × modes Even/ToZero/AwayFromZero × receiver pre-states {fresh, +Inf, held-longer, big-dirty}: sign and specials kept, exact when the expansion fits, else within 64 units", fprecs, fexps),
			Run: func(c *Ctx, u int) {
				fp, fe := fprecs[u/len(fexps)], fexps[u%len(fexps)]
				var xs []*big.Float
				for _, bm := range bmants {
					f, _, err := big.ParseFloat(bm, 2, fp, big.ToNearestEven)
					if err != nil {
						panic(err)
					}
					f.SetMantExp(f, fe)
					xs = append(xs, f, new(big.Float).Neg(f))
				}
				if u == 0 {
					xs = append(xs, new(big.Float), new(big.Float).Neg(new(big.Float)), new(big.Float).SetInf(false), new(big.Float).SetInf(true), new(big.Float).SetPrec(100))
				}
				for _, x := range xs {
					ex := exactOfBigFloat(x)
					h2precs := []uint32{0, 1, 5, 17, 34, 100, 1000}
					if x.IsInt() {
						h2precs = append(h2precs, math.MaxUint32, math.MaxUint32-1) // integers need no division
					}
					for _, p := range h2precs {
						for _, md := range []uint8{ToNearestEven, ToZero, AwayFromZero} {
							for _, pre := range []int{preFresh, preInf, preLonger, preBigDirty} {
								if (fp > 2000 || p > 1000) && ((p > 34 && p <= 1000) || p == 1 || p == 5 || md != ToNearestEven || pre != preFresh) {
									continue // very long mantissas: the precision-0 rule and two receiver precisions only
								}
								if c.Skip() {
									continue
								}
								z := buildPre(pre, p, md)
								arg := new(big.Float).Copy(x)
								pv, _ := protect(func() { z.SetFloat(arg) })
								ep := p
								if ep == 0 {
									ep = uint32(math.Ceil(float64(x.Prec()) * math.Ln2 / math.Ln10))
									if ep == 0 && ex.Form != fFinite {
										ep = 0
									}
								}
								key := func() string {
									return fmt.Sprintf("SetFloat(%s prec %d) prec=%d mode=%s pre=%s", x.Text('p', 0), x.Prec(), p, modeName(md), preNames[pre])
								}
								if arg.Cmp(x) != 0 || arg.Prec() != x.Prec() {
									c.Fail(key(), "argument modified")
								}
								if ep == 0 {
									// precision stays 0 only for specials of a precision-0 big.Float
									if pv != nil {
										c.Fail(key(), fmt.Sprintf("panic: %v", pv))
									} else if o := Observe(z); o.Form != ex.Form || o.Neg != ex.Neg {
										c.Fail(key(), fmt.Sprintf("got %s want %s", o, ex))
									}
									continue
								}
								setFloatJudge(c, key, z, pv, ex, ep, md, 64)
							}
						}
					}
				}
			},
		})
	}
	// H5: SetFloat at the ends of big.Float's exponent range (log-domain oracle, 1e-9 relative)
	{
		fes := []int{math.MinInt32 + 1, math.MinInt32 + 2, math.MinInt32 + 30, math.MinInt32 + 53, math.MinInt32 + 54, math.MinInt32 + 70, math.MinInt32 + 300, -1 << 30, 1 << 30, math.MaxInt32 - 300, math.MaxInt32 - 1, math.MaxInt32}
		layers = append(layers, Layer{
			Name:   "H5-SetFloat-extreme-exponents",
			Units:  len(fes),
			Bounds: fmt.Sprintf("SetFloat(m×2^e) for binary exponents e in %v (ends of big.Float's range, incl. the e − MinPrec < MinInt32 branch) × mantissas {0.5, 0.75, 0.625, 53-bit pattern} × ± × receiver precision {0, 5, 34}: exact decimal exponent and value within 64 units in the last place (or 1e-9 relative), judged in the log domain (the exact expansion has ~10^9 digits)", fes),
			Run: func(c *Ctx, u int) {
				e := fes[u]
				for _, mf := range []float64{0.5, 0.75, 0.625, 0.7853981633974483} {
					for _, neg := range []bool{false, true} {
						for _, p := range []uint32{0, 5, 34} {
							if c.Skip() {
								continue
							}
							x := new(big.Float).SetMantExp(big.NewFloat(mf), e)
							if neg {
								x.Neg(x)
							}
							if x.IsInf() {
								continue
							}
							z := buildPre(preFresh, p, ToNearestEven)
							pv, _ := protect(func() { z.SetFloat(x) })
							key := fmt.Sprintf("SetFloat(%v×2^%d) neg=%v prec=%d", mf, e, neg, p)
							if pv != nil {
								c.Fail(key, fmt.Sprintf("panic: %v", pv))
								continue
							}
							o := Observe(z)
							c.NonTrivial()
							if msg := Canonical(o); msg != "" {
								c.Fail(key, "malformed: "+msg)
								continue
							}
							wp := p
							if wp == 0 {
								wp = uint32(math.Ceil(float64(x.Prec()) * math.Ln2 / math.Ln10))
							}
							if o.Prec != wp || o.Mode != ToNearestEven {
								c.Fail(key, fmt.Sprintf("receiver attributes: %s, want prec %d mode ToNearestEven", o, wp))
								continue
							}
							if c.prop.ID == "C09" {
								continue // attribute judge only
							}
							if o.Form != fFinite || o.Neg != neg {
								c.Fail(key, fmt.Sprintf("got %s, want a finite value of the same sign", o))
								continue
							}
							// log10(x) = e·log10(2) + log10(m)
							l2, _ := new(big.Rat).SetString("0.3010299956639811952137388947244930267681898814621085413104274611271081892744245")
							t := new(big.Rat).Mul(l2, big.NewRat(int64(e), 1))
							t.Add(t, new(big.Rat).SetFloat64(math.Log10(mf)))
							// log10(stored) = exp + log10(0.D)
							lead := o.Words[len(o.Words)-1]
							ls := new(big.Rat).SetFloat64(math.Log10(float64(lead) / 1e19))
							ls.Add(ls, big.NewRat(int64(o.Exp), 1))
							d, _ := new(big.Rat).Sub(ls, t).Float64()
							ep := float64(o.Prec)
							tol := 0.4343*64*math.Pow(10, 1-ep) + 1e-9 // 64 units in the last place, in log10 terms
							if math.Abs(d) > tol {
								c.Fail(key, fmt.Sprintf("stored %s: log10(stored) − log10(x) = %g (a factor of %g)", o, d, math.Pow(10, d)))
							}
						}
					}
				}
			},
		})
	}
	// H3: Float64 / Float32 nearest
	{
		fexpsAll := []int{}
		for e := -1074; e <= 1023; e++ {
			if thorough || e%16 == 0 || e < -1060 || e > 1010 || (e > -160 && e < -120) || (e > 100 && e < 135) || (e > -10 && e < 10) {
				fexpsAll = append(fexpsAll, e)
			}
		}
		layers = append(layers, Layer{
			Name:   "H3-nearest-float",
			Units:  len(fexpsAll),
			Bounds: fmt.Sprintf("Float64/Float32 of: every float f = m×2^e for %d binary exponents × 9 mantissa patterns exactly; the exact midpoint between f and its successor; midpoint×(1±10^-j) for j in 16..45 (inside and outside a 64-bit intermediate's double-rounding window); same for float32 neighbours; oracle big.Rat.Float64/Float32 + accuracy = sign(returned − x)", len(fexpsAll)),
			Run: func(c *Ctx, u int) {
				e := fexpsAll[u]
				for mi, m := range mants {
					if mi >= 9 {
						break
					}
					// float64 neighbours
					var f float64
					if e < -1022 {
						f = math.Float64frombits(uint64(1) << uint(e+1074)) // subnormal power of two
						if m != 0 {
							f = math.Float64frombits((uint64(1) << uint(e+1074)) | (m & (uint64(1)<<uint(e+1074) - 1)))
						}
					} else {
						f = math.Float64frombits(uint64(e+1023)<<52 | m)
					}
					testNeighbourhood(c, f, math.Nextafter(f, math.Inf(1)), "f64")
					// float32 neighbours (where in range)
					g := float32(f)
					if g != 0 && !math.IsInf(float64(g), 0) {
						testNeighbourhood(c, float64(g), float64(math.Nextafter32(g, float32(math.Inf(1)))), "f32")
					}
				}
			},
		})
	}
	// H9: a float32/float64 value or midpoint plus a tail far below it (up to 400 digits down), in mantissas
	// that also carry trailing zero words
	{
		f32s := []float32{1, 1.5, 3.4028235e38, 1.1754944e-38, 1e-45, 7e-45, 16777216, 0.1}
		ks := []int64{50, 80, 110, 114, 115, 116, 121, 125, 130, 133, 134, 140, 152, 160, 200, 400}
		layers = append(layers, Layer{
			Name:   "H9-far-tails-and-padded-mantissas",
			Units:  len(f32s),
			Bounds: fmt.Sprintf("Float32/Float64 of b·(1 ± 10^−k) for b in {f, midpoint(f, next f)} over %d float32 values (and the same as float64 neighbours), k in %v, both signs, the mantissa as is and padded with 2 and 9 trailing zero words", len(f32s), ks),
			Run: func(c *Ctx, u int) {
				g := f32s[u]
				type nb struct {
					lo, hi float64
					tag    string
				}
				nbs := []nb{{float64(g), float64(math.Nextafter32(g, float32(math.Inf(1)))), "f32"}, {float64(g), math.Nextafter(float64(g), math.Inf(1)), "f64"}}
				for _, n := range nbs {
					if math.IsInf(n.hi, 0) {
						continue
					}
					rl, rh := new(big.Rat).SetFloat64(n.lo), new(big.Rat).SetFloat64(n.hi)
					mid := new(big.Rat).Add(rl, rh)
					mid.Quo(mid, big.NewRat(2, 1))
					for bi, b := range []*big.Rat{rl, mid} {
						for _, k := range ks {
							for _, sgn := range []int64{1, -1} {
								if c.Done() {
									return
								}
								eps := new(big.Rat).SetFrac(big.NewInt(sgn), p10(k))
								r := new(big.Rat).Mul(b, new(big.Rat).Add(big.NewRat(1, 1), eps))
								for _, neg := range []bool{false, true} {
									o := valOfRat(r, 0)
									if o.Form != fFinite {
										continue
									}
									o.Neg, o.V.Neg = neg, neg
									for _, pad := range []int{0, 2, 9} {
										xo := *o
										xo.Words = append(make([]uint64, pad), o.Words...)
										xo.Prec = uint32(len(xo.Words) * DW)
										nearestCase(c, &xo, fmt.Sprintf("%s base%d*(1%+de-%d) pad=%d", n.tag, bi, sgn, k, pad))
									}
								}
							}
						}
					}
				}
			},
		})
	}
	// H4: decimal-side values and saturation
	{
		var xs []*Opnd
		for _, cf := range []int64{1, 2, 5, 9, 15, 17976931348623157, 17976931348623158, 17976931348623159, 4940656458412465, 2470328229206232, 2470328229206233, 24703282292062327, 24703282292062328, 34028234663852886, 34028235677973366, 14012984643248170, 7006492321624085, 7006492321624086, 123456789, 999999999999999999,
			// integers around 2^24, 2^53, 2^54 and 2^63 (the first ones a float cannot hold), 15/16/17-digit all-nines
			16777215, 16777217, 16777219, 9007199254740991, 9007199254740993, 9007199254740995, 9007199254740997, 18014398509481986, 18014398509481987, 999999999999999, 9999999999999999, 99999999999999999, 9223372036854775807, 9223372036854775295} {
			xs = append(xs, mkInt64(cf, 0, 34, 0))
		}
		for _, s := range RunLengthStrings(18) {
			if len(s) > 12 {
				xs = append(xs, mkCoef(false, mustInt(s), 0, uint32(len(s)), 0))
			}
		}
		var exps []int64
		for e := int64(-345); e <= 325; e++ {
			exps = append(exps, e)
		}
		exps = append(exps, 400, 421, 5000, MaxExp, -400, -421, -5000, MinExp)
		layers = append(layers, Layer{
			Name:   "H4-decimal-values",
			Units:  len(xs),
			Bounds: fmt.Sprintf("Float64/Float32 of %d coefficients (incl. the digits of MaxFloat64/32, of the smallest subnormals and of half of them ±1) at every decimal exponent -345..325 and beyond the range (saturation to ±Inf/±0), both signs; ±0, ±Inf", len(xs)),
			Run: func(c *Ctx, u int) {
				for _, e := range exps {
					for _, neg := range []bool{false, true} {
						o := *xs[u]
						o.Exp = e
						o.V.E10 = e - int64(len(o.Words))*DW
						o.Neg, o.V.Neg = neg, neg
						nearestCase(c, &o, "")
					}
				}
				if u < 4 {
					sp := mkSpecial([]int8{fZero, fInf}[u%2], u >= 2, 5, 0)
					for k := range staleKinds {
						nearestCase(c, sp.withStale(int8(k)), "") // fresh, and living in a variable that held a finite value before
					}
				}
			},
		})
	}
	// H7: Float (to *big.Float): documented naive, within a few dozen units; specials and signs exact
	{
		var xs []*Opnd
		for _, cf := range []int64{1, 3, 7, 15, 99, 12345, 17976931348623157, 4940656458412465, 999999999999999999} {
			xs = append(xs, mkInt64(cf, 0, 34, 0), mkInt64(-cf, 0, 20, 3))
		}
		for _, s := range RunLengthStrings(12) {
			if len(s) > 9 {
				xs = append(xs, mkCoef(false, mustInt(s), 0, uint32(len(s))+3, 0))
			}
		}
		for _, v := range WVecs(2, S7) {
			xs = append(xs, mkWords(false, v, 0, 0, 0))
		}
		fexps := []int64{-340, -308, -60, -20, -5, -1, 0, 1, 2, 5, 19, 20, 38, 60, 308, 340, 2000, -2000}
		layers = append(layers, Layer{
			Name:   "H7-Float",
			Units:  len(xs),
			Bounds: fmt.Sprintf("x.Float(z) for %d values × %d decimal exponents (−2000..2000) × target precision {0 (rule: max(⌈prec·log2 10⌉,64)), 24, 53, 64, 200} and z == nil; ±0, ±Inf: sign and specials exact, value within 64 units in the last binary place", len(xs), len(fexps)),
			Run: func(c *Ctx, u int) {
				for _, e := range fexps {
					for _, neg := range []bool{false, true} {
						xo := *xs[u]
						xo.Exp = e
						xo.V.E10 = e - int64(len(xo.Words))*DW
						xo.Neg, xo.V.Neg = xo.Neg != neg, xo.Neg != neg
						x := xo.Build()
						r := ratOfVal(xo.V)
						for _, p := range []uint{0, 24, 53, 64, 200} {
							if c.Skip() {
								continue
							}
							var got *big.Float
							z := new(big.Float).SetPrec(p).SetInt64(-77) // receiver holding garbage
							if p == 0 {
								z = nil
							} else if e%2 == 0 {
								z.SetInf(neg) // receiver holding an infinity
							}
							pv, _ := protect(func() { got = x.Float(z) })
							key := fmt.Sprintf("Float x=%s@exp%d prec=%d", &xo, e, p)
							if pv != nil || got == nil {
								c.Fail(key, fmt.Sprintf("panic=%v result=%v", pv, got))
								continue
							}
							wp := p
							if p == 0 {
								wp = uint(math.Ceil(float64(xo.Prec) * math.Log2(10)))
								if wp < 64 {
									wp = 64
								}
							}
							if got.Prec() != wp {
								c.Fail(key, fmt.Sprintf("result precision %d, documented %d", got.Prec(), wp))
								continue
							}
							if got.IsInf() || got.Sign() == 0 || got.Signbit() != xo.Neg {
								c.Fail(key, fmt.Sprintf("got %s for the finite non-zero value %s", got.Text('g', 20), xo.V.Norm()))
								continue
							}
							c.NonTrivial()
							gr, _ := got.Rat(nil)
							d := new(big.Rat).Sub(gr, r)
							d.Abs(d)
							// one unit in the last place of got: 2^(exp − prec)
							ulp := new(big.Rat).SetInt64(1)
							k := got.MantExp(nil) - int(wp)
							if k >= 0 {
								ulp.SetInt(new(big.Int).Lsh(big1, uint(k)))
							} else {
								ulp.SetFrac(big1, new(big.Int).Lsh(big1, uint(-k)))
							}
							if d.Cmp(new(big.Rat).Mul(ulp, big.NewRat(64, 1))) > 0 {
								q, _ := new(big.Rat).Quo(d, ulp).Float64()
								c.Fail(key, fmt.Sprintf("%.1f units in the last place away (tolerance 64): got %s", q, got.Text('g', 30)))
							}
						}
						if msg := xo.CheckBuilt(x); msg != "" {
							c.Fail("Float operand x="+xo.String(), "x modified: "+msg)
						}
					}
				}
				if u < 4 {
					for k := range staleKinds {
						sp := mkSpecial([]int8{fZero, fInf}[u%2], u >= 2, 9, ToZero).withStale(int8(k))
						x := sp.Build()
						for _, z := range []*big.Float{nil, new(big.Float).SetPrec(30).SetInt64(5), new(big.Float).SetPrec(30).SetInf(false), new(big.Float).SetPrec(30).SetInf(true)} {
							if c.Skip() {
								continue
							}
							var got *big.Float
							pv, _ := protect(func() { got = x.Float(z) })
							ok := pv == nil && got != nil && got.Signbit() == sp.Neg && ((sp.Form == fZero && got.Sign() == 0 && !got.IsInf()) || (sp.Form == fInf && got.IsInf()))
							if !ok {
								c.Fail(fmt.Sprintf("Float x=%s", sp), fmt.Sprintf("panic=%v got=%v", pv, got))
							}
						}
					}
				}
			},
		})
	}
	// H8: Float at decimal exponents far outside the float64 range (power-of-5 computation with guard bits)
	{
		hexps := []int64{-640000000, -600000000, -120000000, -20000000, -5000000, -2000000, -300000, 300000, 2000000, 5000000, 20000000, 120000000, 600000000, 640000000}
		coefs := []string{"1", "1234567890123456789", "99999999999999999999999999999999999999", "5"}
		layers = append(layers, Layer{
			Name:   "H8-Float-huge-exponents",
			Units:  len(hexps),
			Bounds: fmt.Sprintf("x.Float(z) for 4 coefficients × decimal exponents %v (inside big.Float's range, far outside float64's) × ± × target precision {24, 53, 64, 200}: within 64 units in the last binary place of coef×10^e computed in big.Float arithmetic with 256 extra bits", hexps),
			Run: func(c *Ctx, u int) {
				e := hexps[u]
				// 10^|e| with 256 guard bits (binary exponentiation: ~60 roundings of relative size 2^-456)
				pow := func(prec uint) *big.Float {
					r := new(big.Float).SetPrec(prec).SetInt64(1)
					b := new(big.Float).SetPrec(prec).SetInt64(10)
					n := e
					if n < 0 {
						n = -n
					}
					for ; n > 0; n >>= 1 {
						if n&1 == 1 {
							r.Mul(r, b)
						}
						b.Mul(b, b)
					}
					return r
				}
				p10e := pow(200 + 256)
				for _, cs := range coefs {
					for _, neg := range []bool{false, true} {
						xo := mkCoef(neg, mustInt(cs), 0, uint32(len(cs))+2, 0)
						xo.V.E10 = e
						xo.Exp = e + int64(len(cs))
						x := xo.Build()
						ref := new(big.Float).SetPrec(200 + 256).SetInt(mustInt(cs))
						if e >= 0 {
							ref.Mul(ref, p10e)
						} else {
							ref.Quo(ref, p10e)
						}
						if neg {
							ref.Neg(ref)
						}
						for _, p := range []uint{24, 53, 64, 200} {
							if c.Skip() {
								continue
							}
							var got *big.Float
							pv, _ := protect(func() { got = x.Float(new(big.Float).SetPrec(p)) })
							key := fmt.Sprintf("Float x=%se%d prec=%d", cs, e, p)
							if pv != nil || got == nil {
								c.Fail(key, fmt.Sprintf("panic=%v result=%v", pv, got))
								continue
							}
							if got.IsInf() || got.Sign() == 0 || got.Signbit() != neg || got.Prec() != p {
								c.Fail(key, fmt.Sprintf("got %s (prec %d) for a finite non-zero value inside big.Float's range", binStr(got), got.Prec()))
								continue
							}
							c.NonTrivial()
							// |got − ref| in units of the last place of got
							d := new(big.Float).SetPrec(200+256).Sub(got, ref)
							d.Abs(d)
							ulp := new(big.Float).SetMantExp(big.NewFloat(1), got.MantExp(nil)-int(p))
							q, _ := new(big.Float).Quo(d, ulp).Float64()
							if q > 64 {
								c.Fail(key, fmt.Sprintf("%.1f units in the last place away (tolerance 64): got %s, reference %s", q, binStr(got), binStr(ref)))
							}
						}
					}
				}
			},
		})
	}
	// H6: long mantissas (the decimal->binary conversion of many-word values)
	{
		var lens []int
		for n := 2; n <= 80; n++ {
			lens = append(lens, n)
		}
		lens = append(lens, 100, 143, 144, 145, 217)
		layers = append(layers, Layer{
			Name:   "H6-long-mantissas",
			Units:  len(lens),
			Bounds: "Float64/Float32 of n-word mantissas for every n in 2..80 ∪ {100,143,144,145,217}: uniform words (B−1, 7.7·10^18, 1) with top-word exceptions, at decimal exponents {0, 1, 19n, −30, 300}",
			Run: func(c *Ctx, u int) {
				n := lens[u]
				for _, w := range []uint64{BW - 1, 7777777777777777777, 1} {
					for _, top := range []uint64{w, BW - 1, 8 * (BW / 10), BW / 10} {
						v := make([]uint64, n)
						for i := range v {
							v[i] = w
						}
						v[n-1] = top
						for _, e := range []int64{0, 1, int64(19 * n), -30, 300} {
							nearestCase(c, mkWords(e%2 != 0, v, e, 0, 0), "long")
						}
					}
				}
			},
		})
	}
	return layers
}

// testNeighbourhood checks Float64/Float32 on lo, the exact midpoint of lo and hi and close neighbours of it.
func testNeighbourhood(c *Ctx, lo, hi float64, tag string) {
	if math.IsInf(hi, 0) || math.IsInf(lo, 0) {
		return
	}
	rl, rh := new(big.Rat).SetFloat64(lo), new(big.Rat).SetFloat64(hi)
	mid := new(big.Rat).Add(rl, rh)
	mid.Quo(mid, big.NewRat(2, 1))
	for _, neg := range []bool{false, true} {
		mk := func(r *big.Rat) *Opnd {
			o := valOfRat(r, 0)
			if o.Form == fFinite {
				o.Neg, o.V.Neg = neg, neg
			}
			return o
		}
		nearestCase(c, mk(rl), tag+" exact")
		nearestCase(c, mk(mid), tag+" midpoint")
		for _, jj := range []int64{16, 17, 18, 19, 20, 21, 22, 25, 30, 38, 45} {
			eps := new(big.Rat).SetFrac(big1, p10(jj))
			up := new(big.Rat).Mul(mid, new(big.Rat).Add(big.NewRat(1, 1), eps))
			dn := new(big.Rat).Mul(mid, new(big.Rat).Sub(big.NewRat(1, 1), eps))
			nearestCase(c, mk(up), fmt.Sprintf("%s midpoint*(1+1e-%d)", tag, jj))
			nearestCase(c, mk(dn), fmt.Sprintf("%s midpoint*(1-1e-%d)", tag, jj))
		}
	}
}

func init() {
	register(&Property{
		ID: "C15", Level: "model_checking",
		Rule: "a case is (float argument, receiver precision, mode) for the setters or (decimal value) for Float64/Float32; non-trivial when the binary value's decimal expansion exceeds the precision (setters) or the decimal value is not exactly representable in binary (getters)",
		Assumptions: []string{
			"oracle: exact rational arithmetic (math/big); big.Rat.Float64/Float32 as the definition of 'nearest'",
			"tolerance for SetFloat is 64 units in the last place ('a few dozen', my reading of the property)",
			"Acc() after SetFloat64/SetFloat is not judged (not stated); Float (to *big.Float) is held to the same 64-unit tolerance, its Acc() is not judged",
		},
		Layers: floatLayers,
	})
}
