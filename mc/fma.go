package main

// C03: FMA = x*y+u rounded once, IEEE zero-sum sign, aliasing-independent.

import (
	"fmt"
	"math/big"
)

// fmaAccOnly selects the C02 judge: only Acc() vs sign(stored − exact).
var fmaAccOnly = false

func fmaAccJudge(vals []*Opnd, o Obs, pv interface{}, exp RRes) string {
	if pv != nil || exp.NaN {
		return "" // panics are C03/C04's subject
	}
	if msg := Canonical(o); msg != "" {
		return "result not canonical: " + msg
	}
	v := valsOf(vals)
	want := int8(0)
	if v[0].Form == fFinite && v[1].Form == fFinite && v[2].Form != fInf {
		s := mulExact(v[0], v[1])
		if v[2].Form == fFinite {
			s = addExact(s, v[2])
		}
		ex := exactRes{zero: s.Form == fZero, neg: s.Neg, num: s.Coef, e10: s.E10}
		want = cmpStoredExact(o, ex)
	} else if (v[0].Form == fZero || v[1].Form == fZero) && v[2].Form == fFinite {
		want = int8(CmpVal(o.Val(), v[2]))
	}
	if o.Acc != want {
		return fmt.Sprintf("Acc() = %d but sign(stored − exact) = %d; stored %s, model %s", o.Acc, want, o, exp)
	}
	return ""
}

func fmaCase(c *Ctx, vals []*Opnd, part []int, prec uint32, mode uint8, pre int) {
	if c.Skip() {
		return
	}
	spec := opSpecs[opFMA]
	exp := spec.Model(valsOf(vals), prec, mode)
	o, pv, isNaN, _, _ := execPart(spec, part, vals, prec, mode, pre)
	c.Outcome(o.Hash())
	key := func() string {
		return fmt.Sprintf("FMA %s alias=%s prec=%d mode=%s pre=%s recv-variant=%d", opndsString(vals), partString(part), prec, modeName(mode), preNames[pre], recvVariant)
	}
	if fmaAccOnly {
		if exp.Acc != 0 {
			c.NonTrivial()
		}
		if msg := fmaAccJudge(vals, o, pv, exp); msg != "" {
			if cls := fmaKnownClass(vals, o, pv, isNaN, prec, mode); cls != "" {
				c.Known(cls, key(), msg)
				return
			}
			c.Fail(key(), msg)
		}
		return
	}
	if msg := judgeFull(o, pv, isNaN, exp, true); msg != "" {
		if cls := fmaKnownClass(vals, o, pv, isNaN, prec, mode); cls != "" {
			c.Known(cls, key(), msg)
			return
		}
		if isNoAlias(part) && pre == preFresh {
			c.FailT(key(), msg, func() string {
				return goTestArith("FMA", []string{"x", "y", "u"}, vals, prec, mode, exp, true)
			})
		} else {
			c.Fail(key(), msg)
		}
		return
	}
	if !exp.NaN && exp.Form == fFinite {
		// does a separately rounded Mul followed by Add differ? (non-vacuity of "single rounding")
		v := valsOf(vals)
		if v[0].Form == fFinite && v[1].Form == fFinite && v[2].Form == fFinite {
			m := ModelMul(v[0], v[1], prec, mode)
			if m.Form == fFinite {
				two := ModelAdd(m.Val(), v[2], prec, mode)
				if !(two.Form == exp.Form && two.Neg == exp.Neg && two.Form == fFinite && two.Val().Equal(exp.Val())) {
					c.NonTrivial()
					c.Count("single_rounding_differs_from_mul_then_add", 1)
				}
			}
		}
	}
	if c.WantSample() {
		c.Sample(fmt.Sprintf("%s -> %s", key(), o))
	}
}

var noAlias3 = []int{0, 1, 2, 3}

func isNoAlias(part []int) bool {
	for i, c := range part {
		if c != i {
			return false
		}
	}
	return true
}

// fmaKnownClass recognises the recorded finding "fma-product-out-of-range":
// input class = finite x, y whose exact product has a decimal exponent outside
// [MinExp, MaxExp]; recorded defective behaviour = the product is first flushed
// to ±Inf / ±0 by the range rule and the flushed value is then added to u.
// Only a failure that shows exactly that behaviour is attributed to the class.
func fmaKnownClass(vals []*Opnd, o Obs, pv interface{}, isNaN bool, prec uint32, mode uint8) string {
	x, y, u := vals[0].V, vals[1].V, vals[2].V
	if x.Form != fFinite || y.Form != fFinite || u.Form != fFinite {
		// an infinite addend absorbs any finite product (repaired defect: the flushed product
		// used to meet the opposite infinity and panic); a zero addend goes through Mul
		return ""
	}
	p := mulExact(x, y)
	pe := p.Exp()
	var flushed Val
	switch {
	case pe > MaxExp:
		flushed = Val{Form: fInf, Neg: p.Neg}
	case pe < MinExp:
		flushed = Val{Form: fZero, Neg: p.Neg}
	default:
		return ""
	}
	alt := ModelAdd(flushed, u, prec, mode)
	if judgeFull(o, pv, isNaN, alt, true) == "" {
		return "fma-product-out-of-range"
	}
	return ""
}

func fmaLayers(tier string) []Layer {
	thorough := tier == "thorough"
	var layers []Layer
	specials := func(p uint32) []*Opnd {
		return []*Opnd{mkSpecial(fZero, false, p, 0), mkSpecial(fZero, true, p, 0), mkSpecial(fInf, false, p, 0), mkSpecial(fInf, true, p, 0)}
	}
	// F1: digit-exhaustive triples
	{
		kxy, exy := 1, int64(1)
		if thorough {
			kxy, exy = 2, 0 // all 2-digit coefficients at one exponent: (184)² × 904 × 24 ≈ 7·10^8 cases
		}
		xs := append(DVals(kxy, exy, true, 34, 0), specials(34)...)
		us := append(DVals(2, 2, true, 34, 0), specials(34)...)
		precs := []uint32{1, 2, 3, 4}
		layers = append(layers, Layer{
			Name:   "F1-digits",
			Units:  len(xs) * len(xs),
			Bounds: fmt.Sprintf("x,y in ±D(%d)×10^[-e..e] (e=1 quick, 0 thorough) ∪ {±0,±Inf} (%d values), u in ±D(2)×10^[-2..2] ∪ {±0,±Inf} (%d values), prec 1..4, 6 modes, no aliasing, fresh receiver", kxy, len(xs), len(us)),
			Run: func(c *Ctx, u int) {
				x, y := xs[u/len(xs)], xs[u%len(xs)]
				for _, uu := range us {
					if c.Done() {
						return
					}
					for _, p := range precs {
						for _, m := range M6 {
							fmaCase(c, []*Opnd{x, y, uu}, noAlias3, p, m, preFresh)
						}
					}
				}
			},
		})
	}
	// F2: word-edge triples
	{
		vecs := WVecs(2, S7)
		if !thorough {
			// quick: 1-word and a subset of the 2-word vectors
			var v2 [][]uint64
			for i, v := range vecs {
				if len(v) == 1 || i%3 == 0 {
					v2 = append(v2, v)
				}
			}
			vecs = v2
		}
		precs := []uint32{1, 19, 20, 38, 57, 76}
		layers = append(layers, Layer{
			Name:   "F2-wordedge",
			Units:  len(vecs) * len(vecs),
			Bounds: fmt.Sprintf("x,y,u in W(2,S7) subset (%d vectors), u: ± and shifted by {0,19,37,38,57} digits relative to the product, prec %v, 6 modes", len(vecs), precs),
			Run: func(c *Ctx, u int) {
				x := mkWords(false, vecs[u/len(vecs)], 0, 0, 0)
				y := mkWords(false, vecs[u%len(vecs)], 0, 0, 0)
				for _, uv := range vecs {
					for _, un := range []bool{false, true} {
						for _, sh := range []int64{0, 19, 37, 38, 57} {
							if c.Done() {
								return
							}
							uo := mkWords(un, uv, -sh, 0, 0)
							for _, p := range precs {
								for _, m := range M6 {
									fmaCase(c, []*Opnd{x, y, uo}, noAlias3, p, m, preFresh)
								}
							}
						}
					}
				}
			},
		})
	}
	// F3: constructive cancellation u = −(x·y) ± δ
	{
		xs := DVals(1, 0, false, 34, 0)
		for _, s := range RunLengthStrings(5) {
			if len(s) <= 7 && len(s) >= 2 {
				xs = append(xs, mkCoef(false, mustInt(s), 0, 34, 0))
			}
		}
		for _, v := range WVecs(2, S7) {
			xs = append(xs, mkWords(false, v, 0, 0, 0))
		}
		ys := DVals(1, 0, false, 34, 0)
		for _, s := range []string{"11", "25", "99", "101", "999", "12345", "99999999", "10000001"} {
			ys = append(ys, mkCoef(false, mustInt(s), 0, 34, 0))
		}
		for _, v := range WVecs(1, S7) {
			ys = append(ys, mkWords(false, v, 0, 0, 0))
		}
		if thorough {
			ys = xs
		}
		layers = append(layers, Layer{
			Name:   "F3-cancellation",
			Units:  len(xs),
			Bounds: "u = −(x·y) + δ, δ in {0, ±1 ulp of the product, ±1 unit at digit prec, ±1 unit at digit prec+1, ±10^-60·|xy|}; x in D(1) ∪ R(5) ∪ W(2,S7), y in D(1) ∪ 8 literals ∪ W(1,S7) (thorough: y = x set); prec {1,2,3,5,19,20,38}; 6 modes; both product signs",
			Run: func(c *Ctx, u int) {
				x := xs[u]
				for _, y0 := range ys {
					if c.Done() {
						return
					}
					for _, yn := range []bool{false, true} {
						y := *y0
						y.Neg, y.V.Neg = yn, yn
						p := mulExact(x.V, y.V)
						dp := ndigits(p.Coef)
						for _, prec := range []uint32{1, 2, 3, 5, 19, 20, 38} {
							// deltas as (sign, decimal position relative to the product's leading digit)
							type dl struct {
								s   int64
								pos int64
							}
							ds := []dl{{0, 0}, {1, dp - 1}, {-1, dp - 1}, {1, int64(prec) - 1}, {-1, int64(prec) - 1}, {1, int64(prec)}, {-1, int64(prec)}, {1, dp + 60}, {-1, dp + 60}}
							for _, d := range ds {
								// u = −p + s·10^(e_top − pos) where e_top is the exponent of the leading digit
								e := p.E10 + dp - 1 - d.pos
								// scale both to exponent min(e, p.E10)
								base := p.E10
								if e < base {
									base = e
								}
								uc := new(big.Int).Mul(p.Coef, p10(p.E10-base))
								uc.Neg(uc)
								if p.Neg {
									uc.Neg(uc)
								}
								if d.s != 0 {
									uc.Add(uc, new(big.Int).Mul(big.NewInt(d.s), p10(e-base)))
								}
								var uo *Opnd
								if uc.Sign() == 0 {
									continue
								}
								un := uc.Sign() < 0
								uo = mkCoef(un, new(big.Int).Abs(uc), base, uint32(ndigits(new(big.Int).Abs(uc)))+1, 0)
								for _, m := range M6 {
									fmaCase(c, []*Opnd{x, &y, uo}, noAlias3, prec, m, preFresh)
								}
							}
						}
					}
				}
			},
		})
	}
	// F4: all aliasing partitions of {z,x,y,u} with small values and specials, all receiver pre-states when unaliased
	{
		vals := []*Opnd{mkInt64(3, 0, 3, 0), mkInt64(-12, -1, 3, 0), mkInt64(25, 1, 3, 0), mkInt64(-7, -2, 3, 0), mkInt64(999, 0, 3, 0), mkInt64(4, 0, 3, 0), mkInt64(-12, 0, 3, 0)}
		vals = append(vals, specials(3)...)
		vals = append(vals, mkSpecial(fZero, false, 3, 0).withStale(3), mkSpecial(fInf, true, 3, 0).withStale(1)) // specials in variables with a history
		parts := partitions(3)
		layers = append(layers, Layer{
			Name:   "F4-aliasing",
			Units:  len(parts),
			Bounds: fmt.Sprintf("all %d aliasing partitions of {z,x,y,u} × values from {3,−1.2,250,−0.07,999,4,−12 (so that 3·4+(−12) cancels exactly),±0,±Inf} per class × prec {2,3} × 6 modes × %d receiver pre-states (when z is not an operand)", len(parts), numPre),
			Run: func(c *Ctx, u int) {
				part := parts[u]
				nclass := 0
				for _, cl := range part {
					if cl+1 > nclass {
						nclass = cl + 1
					}
				}
				zAliased := part[1] == 0 || part[2] == 0 || part[3] == 0
				// assign a value to each class (class 0 only matters if aliased)
				idx := make([]int, nclass)
				for {
					ops := []*Opnd{vals[idx[part[1]]], vals[idx[part[2]]], vals[idx[part[3]]]}
					for _, prec := range []uint32{2, 3} {
						fits := true
						if zAliased {
							for i := 1; i <= 3; i++ {
								if part[i] == 0 && ops[i-1].Form == fFinite && minPrecWords(ops[i-1].Words) > int64(prec) {
									fits = false
								}
							}
						}
						if !fits {
							continue
						}
						for _, m := range M6 {
							if zAliased {
								for v := 0; v < numRecvVariants; v++ {
									recvVariant = v
									fmaCase(c, ops, part, prec, m, preFresh)
								}
								recvVariant = 0
							} else {
								for pre := 0; pre < numPre; pre++ {
									fmaCase(c, ops, part, prec, m, pre)
								}
							}
						}
					}
					// next assignment
					i := 0
					if !zAliased {
						i = 1 // class 0 value unused
					}
					for ; i < nclass; i++ {
						idx[i]++
						if idx[i] < len(vals) {
							break
						}
						idx[i] = 0
					}
					if i >= nclass || c.Done() {
						break
					}
				}
			},
		})
	}
	// F6: aliasing with multi-word values whose lowest word lies below / above the product's
	{
		vals := []*Opnd{
			mkInt64(15, -1, 57, 0), mkInt64(-4, 0, 57, 0), mkInt64(12, 0, 57, 0),
			mkCoef(false, mustInt("12345678901234567890123456789"), -29, 57, 0),
			mkWords(false, []uint64{1, 0, BW / 10}, 20, 57, 0),
			mkWords(true, []uint64{BW - 1, BW - 1}, -30, 57, 0),
			mkInt64(1, -30, 57, 0),
		}
		parts := partitions(3)
		layers = append(layers, Layer{
			Name:   "F6-aliasing-multiword",
			Units:  len(parts),
			Bounds: fmt.Sprintf("all %d aliasing partitions of {z,x,y,u} × one value per class from 7 values (1..3-word mantissas, 29 and 57 digits, 1e-30) × receiver precision {20,38,57} × modes Even/ToZero/ToPositiveInf × receiver pre-states {fresh, held-longer, big-dirty} when z is not an operand", len(parts)),
			Run: func(c *Ctx, u int) {
				part := parts[u]
				nclass := 0
				for _, cl := range part {
					if cl+1 > nclass {
						nclass = cl + 1
					}
				}
				zAliased := part[1] == 0 || part[2] == 0 || part[3] == 0
				idx := make([]int, nclass)
				for {
					ops := []*Opnd{vals[idx[part[1]]], vals[idx[part[2]]], vals[idx[part[3]]]}
					for _, prec := range []uint32{20, 38, 57} {
						fits := true
						for i := 1; i <= 3; i++ {
							if zAliased && part[i] == 0 && minPrecWords(ops[i-1].Words) > int64(prec) {
								fits = false
							}
						}
						if !fits {
							continue
						}
						for _, m := range []uint8{ToNearestEven, ToZero, ToPositiveInf} {
							if zAliased {
								for v := 0; v < numRecvVariants; v++ {
									recvVariant = v
									fmaCase(c, ops, part, prec, m, preFresh)
								}
								recvVariant = 0
							} else {
								for _, pre := range []int{preFresh, preLonger, preBigDirty} {
									fmaCase(c, ops, part, prec, m, pre)
								}
							}
						}
					}
					i := 0
					if !zAliased {
						i = 1
					}
					for ; i < nclass; i++ {
						idx[i]++
						if idx[i] < len(vals) {
							break
						}
						idx[i] = 0
					}
					if i >= nclass || c.Done() {
						break
					}
				}
			},
		})
	}
	// F7: large operands (Karatsuba products inside FMA)
	{
		vals := largeOperands(thorough)
		layers = append(layers, Layer{
			Name:   "F7-large-operands",
			Units:  len(vals),
			Bounds: fmt.Sprintf("FMA(x,y,u) with x,y from %d operands of 31..130 words (200 thorough: all nines, 10^B+1, sparse, uniform edge words) and short partners; u in {−10^(exponent of x·y), +1 unit far below, a short value}; precision {30, full}; modes Even/ToZero/ToPositiveInf; receiver fresh and z==x", len(vals)),
			Run: func(c *Ctx, u int) {
				xo := vals[u]
				for yi, yo := range vals {
					if c.Done() {
						return
					}
					if len(xo.Words) > 2 && len(yo.Words) > 2 && (u+yi)%4 != 0 {
						continue
					}
					p := mulExact(xo.V, yo.V)
					pe := p.Exp()
					us := []*Opnd{
						mkCoef(!p.Neg, big1, pe-1, 1, 0),    // −10^(top digit position): massive cancellation of the leading digit
						mkCoef(p.Neg, big1, p.E10-30, 1, 0), // sticky-only addend far below
						mkInt64(-7, pe-5, 1, 0),
					}
					L := uint32(19 * (len(xo.Words) + len(yo.Words)))
					for _, uo := range us {
						for _, prec := range []uint32{30, L} {
							for _, m := range []uint8{ToNearestEven, ToZero, ToPositiveInf} {
								fmaCase(c, []*Opnd{xo, yo, uo}, noAlias3, prec, m, preFresh)
							}
						}
						if minPrecWords(xo.Words) <= int64(L) {
							fmaCase(c, []*Opnd{xo, yo, uo}, []int{0, 0, 1, 2}, L, ToZero, preFresh)
						}
					}
				}
			},
		})
	}
	// F5: product outside the exponent range while the sum is inside / sticky-only products
	{
		type tc struct{ ex, ey, eu int64 }
		var cases []tc
		for _, d := range []int64{0, 1, 2} {
			// product exponent MaxExp+1.. while u at MaxExp
			cases = append(cases, tc{MaxExp, 1 + d, MaxExp}, tc{MaxExp - 5, 6 + d, MaxExp}, tc{MaxExp, 2 + d, MaxExp - 1})
			// product below MinExp while u at MinExp.. (sticky-only product)
			cases = append(cases, tc{MinExp, -d, MinExp}, tc{MinExp + 3, -4 - d, MinExp}, tc{MinExp, -d, MinExp + 1}, tc{MinExp, -1 - d, MinExp + 30})
		}
		coefs := []int64{1, 15, 2, 5, 99, 101}
		layers = append(layers, Layer{
			Name:   "F5-range",
			Units:  len(cases),
			Bounds: "x·y with decimal exponent in MaxExp+1..MaxExp+3 or below MinExp while u sits at the range end so that x·y+u is (or is not) representable; 6 coefficients³, signs, prec {1,2,3,4}, 6 modes",
			Run: func(c *Ctx, u int) {
				t := cases[u]
				mk := func(v, e int64) *Opnd {
					o := mkInt64(v, 0, 34, 0)
					o.Exp = e
					o.V.E10 = e - int64(len(o.Words))*DW
					return o
				}
				for _, cx := range coefs {
					for _, cy := range coefs {
						for _, cu := range coefs {
							if c.Done() {
								return
							}
							for _, s := range [][3]int64{{1, 1, 1}, {1, 1, -1}, {1, -1, 1}, {-1, 1, -1}} {
								ops := []*Opnd{mk(s[0]*cx, t.ex), mk(s[1]*cy, t.ey), mk(s[2]*cu, t.eu)}
								for _, p := range []uint32{1, 2, 3, 4} {
									for _, m := range M6 {
										fmaCase(c, ops, noAlias3, p, m, preFresh)
									}
								}
							}
						}
					}
				}
			},
		})
	}
	// F8: zero-precision receivers: the result precision is the largest operand precision (also when the
	// largest one belongs to a zero / infinite addend), and the rounding uses it
	{
		layers = append(layers, Layer{
			Name:   "F8-zero-precision-receiver",
			Units:  6,
			Bounds: "FMA into a receiver of precision 0: x, y in {1.2345, −9.9995, 7} and u in {0.00005, −12.345, ±0, ±Inf}, the three operands carrying the precisions {5, 7, 40} in all 6 orders; 6 modes; result = exact x·y+u rounded to the largest operand precision, Prec() equal to it",
			Run: func(c *Ctx, u int) {
				perms := [][3]uint32{{5, 7, 40}, {5, 40, 7}, {7, 5, 40}, {7, 40, 5}, {40, 5, 7}, {40, 7, 5}}
				pp := perms[u]
				xs := []*Opnd{mkInt64(12345, -4, 5, 0), mkInt64(-99995, -4, 5, 0), mkInt64(7, 0, 5, 0)}
				us := []*Opnd{mkInt64(5, -5, 5, 0), mkInt64(-12345, -3, 5, 0), mkSpecial(fZero, false, 5, 0), mkSpecial(fZero, true, 5, 0), mkSpecial(fInf, false, 5, 0), mkSpecial(fInf, true, 5, 0)}
				for _, x0 := range xs {
					for _, y0 := range xs {
						for _, u0 := range us {
							for _, m := range M6 {
								if c.Skip() {
									continue
								}
								x, y, uu := *x0, *y0, *u0
								x.Prec, y.Prec, uu.Prec = pp[0], pp[1], pp[2]
								vals := []*Opnd{&x, &y, &uu}
								spec := opSpecs[opFMA]
								exp := spec.Model(valsOf(vals), 40, m)
								o, pv, isNaN, _, _ := execPart(spec, noAlias3, vals, 0, m, preFresh)
								key := fmt.Sprintf("FMA %s receiver precision 0 mode=%s", opndsString(vals), modeName(m))
								c.NonTrivial()
								if msg := judgeFull(o, pv, isNaN, exp, true); msg != "" {
									c.Fail(key, msg)
								} else if pv == nil && o.Prec != 40 {
									c.Fail(key, fmt.Sprintf("precision of the result is %d, the largest operand precision is 40", o.Prec))
								}
							}
						}
					}
				}
			},
		})
	}
	return layers
}

func init() {
	register(&Property{
		ID: "C03", Level: "model_checking",
		Rule: "a case is (x, y, u, aliasing partition, receiver pre-state, precision, mode); non-trivial when the single rounding of x·y+u differs from Mul followed by Add (the intermediate rounding matters)",
		Assumptions: []string{
			"exponent gaps between product and addend are bounded by a few hundred digits (allocation ∝ gap)",
			"reference model trusted (ref.go: exact big.Int product and sum, one rounding)",
		},
		Layers: fmaLayers,
	})
}
