package main

// C13: formatting. Reference formatter (round once at the requested position
// under x's mode, then strconv/fmt layout) pinned to strconv.FormatFloat and
// fmt.Sprintf of the toolchain on float64-exact values in the same run.

import (
	"fmt"
	"math"
	"math/big"
	"os"
	"strconv"
	"strings"
	"time"

	"github.com/db47h/decimal"
)

// decDigits is a decimal digit string with a radix point position:
// value = 0.D × 10^dp (D without trailing zeros; empty for zero).
type decDigits struct {
	D  string
	dp int64
}

func digitsOf(v Val) decDigits {
	if v.Form != fFinite {
		return decDigits{}
	}
	n := v.Norm()
	s := n.Coef.String()
	return decDigits{D: s, dp: int64(len(s)) + n.E10}
}

// roundDigits rounds 0.D×10^dp of sign neg to nd significant digits (nd may be
// <= 0: the rounding position is at or above the leading digit) under mode.
func roundDigits(d decDigits, neg bool, nd int64, mode uint8) decDigits {
	if d.D == "" || nd >= int64(len(d.D)) {
		return d
	}
	if nd >= 1 {
		// printing is not subject to the exponent range: round the mantissa 0.D and re-attach the exponent
		c := mustInt(d.D)
		r := RoundVal(Val{Form: fFinite, Neg: neg, Coef: c, E10: -int64(len(d.D))}, uint32(nd), mode)
		rd := digitsOf(r.Val())
		rd.dp += d.dp
		return rd
	}
	// nd <= 0: candidates 0 and one unit u = 10^(dp-nd) ... the unit at the rounding position
	// value v = 0.D × 10^dp; unit u = 10^(dp - nd); v < u always; v >= u/2 only if nd == 0 and D >= "5"
	half := -1 // sign(v − u/2)
	if nd == 0 {
		switch {
		case d.D[0] > '5' || (d.D[0] == '5' && len(d.D) > 1):
			half = 1
		case d.D == "5":
			half = 0
		}
	}
	inc := false
	switch mode {
	case ToNearestEven:
		inc = half > 0
	case ToNearestAway:
		inc = half >= 0
	case ToZero:
	case AwayFromZero:
		inc = true
	case ToNegativeInf:
		inc = neg
	case ToPositiveInf:
		inc = !neg
	}
	if !inc {
		return decDigits{}
	}
	return decDigits{D: "1", dp: d.dp - nd + 1}
}

func fmtExp(buf []byte, fmtc byte, e int64) []byte {
	buf = append(buf, fmtc)
	if e < 0 {
		buf = append(buf, '-')
		e = -e
	} else {
		buf = append(buf, '+')
	}
	if e < 10 {
		buf = append(buf, '0')
	}
	return strconv.AppendInt(buf, e, 10)
}

func layoutE(d decDigits, fmtc byte, prec int) string {
	var buf []byte
	ch := byte('0')
	if len(d.D) > 0 {
		ch = d.D[0]
	}
	buf = append(buf, ch)
	if prec > 0 {
		buf = append(buf, '.')
		for i := 1; i <= prec; i++ {
			c := byte('0')
			if i < len(d.D) {
				c = d.D[i]
			}
			buf = append(buf, c)
		}
	}
	e := int64(0)
	if len(d.D) > 0 {
		e = d.dp - 1
	}
	return string(fmtExp(buf, fmtc, e))
}

func layoutF(d decDigits, prec int) string {
	var buf []byte
	if d.dp > 0 && len(d.D) > 0 {
		for i := int64(0); i < d.dp; i++ {
			c := byte('0')
			if i < int64(len(d.D)) {
				c = d.D[i]
			}
			buf = append(buf, c)
		}
	} else {
		buf = append(buf, '0')
	}
	if prec > 0 {
		buf = append(buf, '.')
		for i := 0; i < prec; i++ {
			j := d.dp + int64(i)
			c := byte('0')
			if j >= 0 && j < int64(len(d.D)) {
				c = d.D[j]
			}
			buf = append(buf, c)
		}
	}
	return string(buf)
}

// refText is the reference for (*Decimal).Text(format, prec) on a value with
// exact value v, precision xprec and rounding mode xmode.
func refText(v Val, xprec uint32, xmode uint8, format byte, prec int) string {
	sign := ""
	if v.Neg {
		sign = "-"
	}
	if v.Form == fInf {
		if !v.Neg {
			return "+Inf"
		}
		return "-Inf"
	}
	d := digitsOf(v)
	switch format {
	case 'b':
		if v.Form == fZero {
			return sign + "0"
		}
		m := d.D
		if len(m) > int(xprec) {
			m = m[:xprec]
		}
		m += strings.Repeat("0", int(xprec)-len(m))
		e := d.dp - int64(xprec)
		s := sign + m + "e"
		if e >= 0 {
			s += "+"
		}
		return s + strconv.FormatInt(e, 10)
	case 'p':
		if v.Form == fZero {
			return sign + "0"
		}
		s := sign + "0." + d.D + "e"
		if d.dp >= 0 {
			s += "+"
		}
		return s + strconv.FormatInt(d.dp, 10)
	case 'e', 'E', 'f', 'g', 'G':
	default:
		return "%" + string(format)
	}
	shortest := prec < 0
	digs := len(d.D)
	if shortest {
		switch format {
		case 'e', 'E':
			prec = digs - 1
			if prec < 0 {
				prec = 0
			}
		case 'f':
			prec = int(int64(digs) - d.dp)
			if prec < 0 || digs == 0 {
				prec = 0
			}
		case 'g', 'G':
			prec = digs
		}
	} else {
		var nd int64
		switch format {
		case 'e', 'E':
			nd = 1 + int64(prec)
		case 'f':
			nd = d.dp + int64(prec)
		case 'g', 'G':
			if prec == 0 {
				prec = 1
			}
			nd = int64(prec)
		}
		d = roundDigits(d, v.Neg, nd, xmode)
		digs = len(d.D)
	}
	switch format {
	case 'e', 'E':
		return sign + layoutE(d, format, prec)
	case 'f':
		return sign + layoutF(d, prec)
	}
	// %g
	eprec := prec
	if eprec > digs && int64(digs) >= d.dp {
		eprec = digs
	}
	if shortest {
		eprec = 6
	}
	exp := d.dp - 1
	if digs == 0 {
		exp = -1 // zero: dp is 0
	}
	if exp < -4 || exp >= int64(eprec) {
		if prec > digs {
			prec = digs
		}
		return sign + layoutE(d, format+'e'-'g', prec-1)
	}
	if int64(prec) > d.dp {
		prec = digs
	}
	fp := int64(prec) - d.dp
	if fp < 0 {
		fp = 0
	}
	return sign + layoutF(d, int(fp))
}

// refPad applies fmt's sign/width/flag rules (as measured on float64 by selfcheck) to a body
// produced by refText for verb with the given flags.
func refPad(body string, plus, space, zero, minus bool, width int, hasWidth bool) string {
	sign := ""
	num := body
	isInf := strings.HasSuffix(body, "Inf")
	switch {
	case strings.HasPrefix(body, "-"):
		sign, num = "-", body[1:]
	case strings.HasPrefix(body, "+"):
		sign, num = "+", body[1:]
		if space && !plus {
			sign = " "
		}
	case plus:
		sign = "+"
	case space:
		sign = " "
	}
	if minus {
		zero = false // fmt: '-' overrides '0'
	}
	pad := 0
	if hasWidth && width > len(sign)+len(num) {
		pad = width - len(sign) - len(num)
	}
	switch {
	case zero && !isInf:
		return sign + strings.Repeat("0", pad) + num
	case minus:
		return sign + num + strings.Repeat(" ", pad)
	}
	return strings.Repeat(" ", pad) + sign + num
}

// dyadic values k/2^j that are exact both as float64 and as short decimals
func dyadicSet() []float64 {
	var out []float64
	seen := map[float64]bool{}
	for _, k := range []int64{1, 3, 5, 7, 9, 15, 25, 33, 63, 64, 100, 1023, 12345} {
		for j := 0; j <= 12; j++ {
			f := float64(k) / float64(int64(1)<<uint(j))
			if !seen[f] {
				seen[f] = true
				out = append(out, f, -f)
			}
		}
	}
	for _, f := range []float64{0, 1e6, 123456789, 1e15, 1e20, 1e21, 1e22, 5e-324 * 0, 0.5, 0.25, 2.5, 1 << 40} {
		if !seen[f] {
			seen[f] = true
			out = append(out, f)
		}
	}
	return out
}

func valOfFloat(f float64) Val {
	if f == 0 {
		return Val{Form: fZero, Neg: math.Signbit(f)}
	}
	r, _ := new(big.Float).SetFloat64(f).Rat(nil)
	v, ok := ratRepresentable(r, 1<<20)
	if !ok {
		panic("valOfFloat")
	}
	return v
}

// formatSelfCheck pins the reference formatter to strconv and the padding model to fmt.
func formatSelfCheck() {
	fail := func(msg string) {
		fmt.Fprintln(os.Stderr, "HARNESS-ERROR: reference formatter self-check failed:", msg)
		os.Exit(2)
	}
	for _, f := range dyadicSet() {
		v := valOfFloat(f)
		for _, fm := range []byte{'e', 'E', 'f', 'g', 'G'} {
			for _, p := range []int{0, 1, 2, 3, 5, 8, 17, 30} {
				want := strconv.FormatFloat(f, fm, p, 64)
				got := refText(v, 60, ToNearestEven, fm, p)
				if got != want {
					fail(fmt.Sprintf("refText(%v, %c, %d) = %q, strconv.FormatFloat = %q", f, fm, p, got, want))
				}
			}
		}
		// padding model against fmt on float64
		for _, verb := range []byte{'e', 'f', 'g', 'G', 'E'} {
			for fl := 0; fl < 16; fl++ {
				plus, space, zero, minus := fl&1 != 0, fl&2 != 0, fl&4 != 0, fl&8 != 0
				for _, w := range []int{-1, 1, 6, 14} {
					for _, p := range []int{-1, 0, 2} {
						format := fmtString(verb, plus, space, zero, minus, w, p)
						want := fmt.Sprintf(format, f)
						tp := p
						if tp < 0 {
							if verb == 'g' || verb == 'G' {
								continue // shortest of float64 is not the decimal's digit count
							}
							tp = 6
						}
						got := refPad(refText(v, 60, ToNearestEven, verb, tp), plus, space, zero, minus, w, w >= 0)
						if got != want {
							fail(fmt.Sprintf("padding model: Sprintf(%q, %v) = %q, model %q", format, f, want, got))
						}
					}
				}
			}
		}
	}
	for _, f := range []float64{math.Inf(1), math.Inf(-1)} {
		for fl := 0; fl < 16; fl++ {
			plus, space, zero, minus := fl&1 != 0, fl&2 != 0, fl&4 != 0, fl&8 != 0
			for _, w := range []int{-1, 2, 8} {
				format := fmtString('f', plus, space, zero, minus, w, -1)
				want := fmt.Sprintf(format, f)
				body := "+Inf"
				if f < 0 {
					body = "-Inf"
				}
				if got := refPad(body, plus, space, zero, minus, w, w >= 0); got != want {
					fail(fmt.Sprintf("padding model: Sprintf(%q, %v) = %q, model %q", format, f, want, got))
				}
			}
		}
	}
}

// fakeState is a minimal fmt.State used to drive (*Decimal).Format directly.
type fakeState struct {
	buf                      strings.Builder
	plus, space, zero, minus bool
	wid, prec                int
}

func (f *fakeState) Write(b []byte) (int, error) { return f.buf.Write(b) }
func (f *fakeState) Width() (int, bool)          { return f.wid, f.wid >= 0 }
func (f *fakeState) Precision() (int, bool)      { return f.prec, f.prec >= 0 }
func (f *fakeState) Flag(c int) bool {
	switch c {
	case '+':
		return f.plus
	case ' ':
		return f.space
	case '0':
		return f.zero && !f.minus // as fmt reports it
	case '-':
		return f.minus
	}
	return false
}

func fmtString(verb byte, plus, space, zero, minus bool, width, prec int) string {
	s := "%"
	if plus {
		s += "+"
	}
	if space {
		s += " "
	}
	if minus {
		s += "-"
	}
	if zero {
		s += "0"
	}
	if width >= 0 {
		s += strconv.Itoa(width)
	}
	if prec >= 0 {
		s += "." + strconv.Itoa(prec)
	}
	return s + string(verb)
}

func textCase(c *Ctx, xo *Opnd, x *Dec, format byte, prec int) {
	if c.Skip() {
		return
	}
	want := refText(xo.V, xo.Prec, xo.Mode, format, prec)
	var got string
	pv, _ := protect(func() { got = x.Text(format, prec) })
	key := func() string {
		return fmt.Sprintf("Text(%c,%d) x=%s@exp%d mode=%s", format, prec, xo, xo.Exp, modeName(xo.Mode))
	}
	if pv != nil {
		c.Fail(key(), fmt.Sprintf("panic: %v", pv))
		return
	}
	c.Outcome(fnvStr(0, got))
	if prec >= 0 && xo.Form == fFinite {
		c.NonTrivial()
	}
	if got != want {
		c.Fail(key(), fmt.Sprintf("got %q, want %q", got, want))
		return
	}
	if c.WantSample() {
		c.Sample(fmt.Sprintf("%s = %q", key(), got))
	}
}

// inexactTwin returns a Decimal with x's value, sign, precision and mode whose accuracy is not Exact
// (x ± a digit far below its precision, rounded back onto x), or nil when there is none.
// Formatting must not consult the accuracy left by an earlier operation.
func inexactTwin(x *Dec) *Dec {
	if x.IsInf() || x.IsZero() {
		return nil
	}
	e := x.MantExp(nil) - int(x.Prec()) - 3
	if e < -100000 {
		return nil
	}
	tiny := decimal.NewDecimal(1, e)
	for _, sub := range []bool{false, true} {
		z := new(Dec).SetPrec(x.Prec()).SetMode(x.Mode())
		if sub {
			z.Sub(x, tiny)
		} else {
			z.Add(x, tiny)
		}
		if z.Cmp(x) == 0 && z.Acc() != decimal.Exact && z.Prec() == x.Prec() && z.Mode() == x.Mode() {
			return z
		}
	}
	return nil
}

func formatLayers(tier string) []Layer {
	thorough := tier == "thorough"
	var layers []Layer
	// V1: Text/Append against the reference formatter
	{
		var base []*Opnd
		k := 3
		if thorough {
			k = 5
		}
		for _, cf := range DCoefs(k) {
			base = append(base, mkInt64(cf, 0, 34, 0))
		}
		for _, s := range []string{"5", "15", "25", "95", "995", "9995", "99995", "4999", "5001", "50", "149", "151", "999999", "1234567890123456789012345678901234567891", "99999999999999999999999999999999999999995", "1000000000000000000000000000000000000000005", "50000000000000000001", "5000000000000000000000000000000000000003", "500000000000000000000000000000000000000000000000000000000007", "49999999999999999999999", "5000000000000000000", "50000000000000000000000000000000000000000000000000000000001"} {
			base = append(base, mkCoef(false, mustInt(s), 0, uint32(len(s))+2, 0))
		}
		// mantissas with low / interior zero words (as exact quotients, products and square roots have)
		for _, v := range [][]uint64{{0, BW / 4}, {0, 0, BW / 2}, {0, 3, BW / 10}, {0, 0, 0, 123 * (BW / 1000)}, {7, 0, BW - 1}} {
			base = append(base, mkWords(false, v, 0, uint32(len(v)*DW)+3, 0))
		}
		// 5- and 9-word mantissas of one repeated word with a zero word at every index below the top
		for _, n := range []int{5, 9} {
			for _, w := range []uint64{BW - 1, 1234567890123456789} {
				for i := 0; i < n-1; i++ {
					v := make([]uint64, n)
					for k := range v {
						v[k] = w
					}
					v[i] = 0
					base = append(base, mkWords(false, v, 0, uint32(n*DW)+3, 0))
				}
			}
		}
		exps := []int64{-8, -7, -6, -5, -4, -3, -2, -1, 0, 1, 2, 3, 4, 5, 6, 7, 8, 9, 10, 11, 21, 22, 40, 99, 100, 101, 102, -98, -99, -100, -101, 1000, 1001, -999, -1000}
		precs := []int{-1, 0, 1, 2, 3, 4, 5, 6, 7, 8, 20, 40}
		layers = append(layers, Layer{
			Name:   "V1-text",
			Units:  len(base),
			Bounds: fmt.Sprintf("x = c×10^e for c in D(%d) ∪ 23 tie/all-nines/long (multi-word, leading 5) literals ∪ 5- and 9-word mantissas of one repeated word with a zero word at every index, decimal-point positions %v, ±, plus ±0, ±Inf; x.mode in 6 modes; formats e,E,f,g,G,p,b; precisions %v; Append onto buffers that already hold digits, points, exponents == prefix + Text; the same value carrying accuracy Below/Above from an earlier Add/Sub prints the same text (formats e,f,g,p,b, all precisions)", k, exps, precs),
			Run: func(c *Ctx, u int) {
				for _, e := range exps {
					for _, neg := range []bool{false, true} {
						for _, m := range M6 {
							if c.Done() {
								return
							}
							xo := *base[u]
							xo.Exp = e
							xo.V.E10 = e - int64(len(xo.Words))*DW
							xo.Neg, xo.V.Neg = neg, neg
							xo.Mode = m
							x := xo.Build()
							for _, f := range []byte{'e', 'E', 'f', 'g', 'G', 'p', 'b'} {
								for _, p := range precs {
									if (f == 'p' || f == 'b') && p != 0 {
										continue
									}
									textCase(c, &xo, x, f, p)
								}
							}
							if !c.Skip() {
								// the same value with an inexact accuracy left by an earlier operation prints the same text
								if xi := inexactTwin(x); xi != nil {
									for _, f := range []byte{'e', 'f', 'g', 'p', 'b'} {
										for _, p := range precs {
											if (f == 'p' || f == 'b') && p != 0 {
												continue
											}
											var gi string
											pv, _ := protect(func() { gi = xi.Text(f, p) })
											if ge := x.Text(f, p); pv != nil || gi != ge {
												c.Fail(fmt.Sprintf("Text(%c,%d) of inexact x=%s@exp%d mode=%s acc=%s", f, p, xo.String(), xo.Exp, modeName(xo.Mode), xi.Acc()), fmt.Sprintf("got %q (panic %v), the same value with accuracy Exact prints %q", gi, pv, ge))
											}
										}
									}
								} else if xo.Form == fFinite {
									c.Fail("inexactTwin x="+xo.String(), "harness: no inexact twin could be built")
								}
								a := string(x.Append([]byte("xy"), 'g', 3))
								if a != "xy"+x.Text('g', 3) {
									c.Fail("Append x="+xo.String(), fmt.Sprintf("Append = %q, Text = %q", a, x.Text('g', 3)))
								}
								// what is already in the buffer (digits, a radix point, an exponent, zeros) is not Append's business
								for _, pre := range []string{"2.5 ", "1.0e+00", "0.", "100", "-.5e-0700"} {
									for _, fp := range []struct {
										f byte
										p int
									}{{'g', -1}, {'g', 3}, {'G', 0}, {'f', 2}, {'e', -1}} {
										buf := append(make([]byte, 0, 8), pre...)
										if a := string(x.Append(buf, fp.f, fp.p)); a != pre+x.Text(fp.f, fp.p) {
											c.Fail(fmt.Sprintf("Append(%q, %c, %d) x=%s", pre, fp.f, fp.p, xo.String()), fmt.Sprintf("Append = %q, Text = %q", a, x.Text(fp.f, fp.p)))
										}
									}
								}
								if x.String() != x.Text('g', 10) {
									c.Fail("String x="+xo.String(), "String() != Text('g', 10)")
								}
							}
						}
					}
				}
				if u < 4 {
					sp := mkSpecial([]int8{fZero, fInf}[u%2], u >= 2, 7, uint8(u))
					x := sp.Build()
					for _, f := range []byte{'e', 'E', 'f', 'g', 'G', 'p', 'b', 'x', 'd', 0} {
						for _, p := range precs {
							textCase(c, sp, x, f, p)
						}
					}
				}
			},
		})
	}
	// V4: a digit far below the rounding position must still be seen (and seen once):
	// kept digits + rounding digit + j filler digits + optional tail digit
	{
		keeps := []int{1, 2, 3, 19, 20, 38}
		maxJ := 60
		if thorough {
			maxJ = 120
		}
		layers = append(layers, Layer{
			Name:   "V4-far-sticky-digit",
			Units:  len(keeps) * 2,
			Bounds: fmt.Sprintf("x = (p kept digits, last one even/odd)(rounding digit in {0,4,5,9})(j digits all 0 or all 9, j = 0..%d)(nothing | 1), p in %v: mantissas of up to %d digits printed with exactly p significant digits: %%e (prec p−1), %%g (prec p), %%f (digits after the point chosen so that p digits remain), decimal point positions {0,1,5,−3}, ±, 6 modes", maxJ, keeps, 38+2+maxJ),
			Run: func(c *Ctx, u int) {
				p := keeps[u/2]
				kept := "1"
				for len(kept) < p {
					kept += string('0' + byte((len(kept)*7)%10))
				}
				last := "2"
				if u%2 == 1 {
					last = "3"
				}
				kept = kept[:p-1] + last
				for _, rd := range []string{"0", "4", "5", "9"} {
					for _, fill := range []string{"0", "9"} {
						for j := 0; j <= maxJ; j++ {
							for _, tail := range []string{"", "1"} {
								if c.Done() {
									return
								}
								lit := kept + rd + strings.Repeat(fill, j) + tail
								lit = strings.TrimRight(lit, "0")
								if len(lit) <= p {
									continue // nothing to round
								}
								base := mkCoef(false, mustInt(lit), 0, uint32(len(lit))+1, 0)
								for _, e := range []int64{0, 1, 5, -3} {
									for _, neg := range []bool{false, true} {
										for _, m := range M6 {
											xo := *base
											xo.Exp = e
											xo.V.E10 = e - int64(len(xo.Words))*DW
											xo.Neg, xo.V.Neg = neg, neg
											xo.Mode = m
											x := xo.Build()
											textCase(c, &xo, x, 'e', p-1)
											textCase(c, &xo, x, 'g', p)
											if fp := int64(p) - e; fp >= 0 {
												textCase(c, &xo, x, 'f', int(fp))
											}
										}
									}
								}
							}
						}
					}
				}
			},
		})
	}
	// V3: zeros that previously held a finite value, and all-nines values at the ends of the exponent range
	{
		type stale struct {
			lit string
			how int
		}
		var zs []stale
		for _, lit := range []string{"1e-10", "1234567", "0.0075", "-2.5e-7", "9.99e300", "1e-2147483648", "5e2147483646", "0.625", "-0.5", "0.999"} { // the last three: stale exponent 0
			for how := 0; how < 4; how++ {
				zs = append(zs, stale{lit, how})
			}
		}
		layers = append(layers, Layer{
			Name:   "V3-stale-zero-and-range-ends",
			Units:  len(zs) + 6,
			Bounds: "±0 obtained in a variable that previously held a finite value (SetInt64(0), Mul(x,0), SetPrec(0)+SetPrec(p), Set(zero)) for 7 previous values incl. exponents at the range ends: formats e,E,f,g,G,p,b × 12 precisions must print exactly what a fresh zero prints; all-nines coefficients at exponents MaxExp, MaxExp−1, MinExp in formats e,E,g,G,p,b (rounding carries out of the representable range)",
			Run: func(c *Ctx, u int) {
				precs := []int{-1, 0, 1, 2, 3, 6, 10, 40}
				if u < len(zs) {
					s := zs[u]
					x := fresh(20, uint8(u%6))
					if _, ok := x.SetString(s.lit); !ok {
						c.Fail("V3 setup "+s.lit, "SetString failed")
						return
					}
					neg := x.Signbit()
					switch s.how {
					case 0:
						x.SetInt64(0)
						neg = false
					case 1:
						x.Mul(x, new(Dec))
					case 2:
						x.SetPrec(0)
						x.SetPrec(20)
					case 3:
						x.Set(new(Dec).Neg(new(Dec)))
						neg = true
					}
					if !x.IsZero() {
						c.Fail("V3 setup "+s.lit, "not zero")
						return
					}
					zo := mkSpecial(fZero, neg, uint32(x.Prec()), uint8(x.Mode()))
					for _, f := range []byte{'e', 'E', 'f', 'g', 'G', 'p', 'b'} {
						for _, p := range precs {
							if c.Skip() {
								continue
							}
							want := refText(zo.V, zo.Prec, zo.Mode, f, p)
							var got string
							done := make(chan struct{})
							var pv interface{}
							go func() {
								defer close(done)
								pv, _ = protect(func() { got = x.Text(f, p) })
							}()
							key := fmt.Sprintf("Text(%c,%d) of a zero that previously held %s (zeroed by method %d)", f, p, s.lit, s.how)
							select {
							case <-done:
							case <-time.After(300 * time.Second):
								c.Fail(key, "did not terminate within 300 s (output proportional to a stale exponent?)")
								return
							}
							c.NonTrivial()
							if pv != nil {
								c.Fail(key, fmt.Sprintf("panic: %v", pv))
							} else if got != want {
								c.Fail(key, fmt.Sprintf("got %q, a fresh zero prints %q", got, want))
							}
						}
					}
					return
				}
				// range ends
				k := u - len(zs)
				e := []int64{MaxExp, MaxExp - 1, MinExp, MaxExp, MaxExp - 1, MinExp}[k]
				coef := []string{"99999", "9995", "99999", "12345", "5", "995"}[k]
				for _, neg := range []bool{false, true} {
					for _, m := range M6 {
						xo := mkCoef(neg, mustInt(coef), 0, 20, m)
						xo.Exp = e
						xo.V.E10 = e - int64(len(xo.Words))*DW
						x := xo.Build()
						for _, f := range []byte{'e', 'E', 'g', 'G', 'p', 'b'} {
							for _, p := range []int{-1, 0, 1, 2, 3, 4, 5, 8} {
								if (f == 'p' || f == 'b') && p != 0 {
									continue
								}
								textCase(c, xo, x, f, p)
							}
						}
					}
				}
			},
		})
	}
	// V5: every field width (padding of every length), against fmt on the same float64
	{
		fvals := []float64{1.5, -0.0078125, 123456.75, 0, math.Inf(1), math.Inf(-1), -2}
		maxW := 300
		if thorough {
			maxW = 1100
		}
		layers = append(layers, Layer{
			Name:   "V5-field-widths",
			Units:  len(fvals),
			Bounds: fmt.Sprintf("%d float64-exact values × every width 0..%d × flags {none, -, 0, +, space, +0, -0} × verbs/precisions {%%.2f, %%e, %%.3g, %%v}: identical to fmt.Sprintf of the float64 (%%v: to the reference formatter)", len(fvals), maxW),
			Run: func(c *Ctx, u int) {
				f := fvals[u]
				var xo *Opnd
				if math.IsInf(f, 0) {
					xo = mkSpecial(fInf, f < 0, 20, 0)
				} else if v := valOfFloat(f); v.Form == fFinite {
					xo = mkCoef(v.Neg, v.Coef, v.E10, 40, 0)
				} else {
					xo = mkSpecial(v.Form, v.Neg, 20, 0)
				}
				x := xo.Build()
				for w := 0; w <= maxW; w++ {
					for _, fl := range []string{"", "-", "0", "+", " ", "+0", "-0"} {
						for _, vp := range []string{".2f", "e", ".3g", "v"} {
							if c.Skip() {
								continue
							}
							format := "%" + fl + strconv.Itoa(w) + vp
							var got string
							pv, _ := protect(func() { got = fmt.Sprintf(format, x) })
							key := fmt.Sprintf("Sprintf(%q) x=%v", format, f)
							if pv != nil {
								c.Fail(key, fmt.Sprintf("panic: %v", pv))
								continue
							}
							c.NonTrivial()
							var want string
							if vp == "v" {
								want = refPad(refText(xo.V, xo.Prec, xo.Mode, 'g', -1), strings.Contains(fl, "+"), strings.Contains(fl, " "), strings.Contains(fl, "0"), strings.Contains(fl, "-"), w, true)
							} else {
								want = fmt.Sprintf(format, f)
							}
							if got != want {
								c.Fail(key, fmt.Sprintf("got %q (%d bytes), want %q (%d bytes)", got, len(got), want, len(want)))
							}
						}
					}
				}
			},
		})
	}
	// V2: fmt verbs × flags × width × precision
	{
		var vals []*Opnd
		for _, f := range dyadicSet() {
			v := valOfFloat(f)
			if v.Form == fZero {
				vals = append(vals, mkSpecial(fZero, v.Neg, 20, 0))
				continue
			}
			vals = append(vals, mkCoef(v.Neg, v.Coef, v.E10, 40, 0))
		}
		nd := len(vals)
		vals = append(vals, mkSpecial(fInf, false, 5, 0), mkSpecial(fInf, true, 5, 0))
		vals = append(vals, mkCoef(false, mustInt("1234567890123456789012345678901234567891"), -20, 45, ToZero), mkCoef(true, mustInt("99999999999999999999995"), -3, 30, ToPositiveInf), mkInt64(6, -1, 5, ToNearestAway), mkInt64(-87890625, -10, 12, AwayFromZero))
		layers = append(layers, Layer{
			Name:   "V2-fmt-verbs",
			Units:  len(vals),
			Bounds: fmt.Sprintf("%d float64-exact dyadic values (compared with fmt.Sprintf of the float64 itself) plus ±Inf and 4 non-float values (compared with the reference formatter + padding model); verbs e,E,f,F,g,G,v,s,b,p and an unknown verb; all 16 subsets of the flags {+, space, 0, -}; width {none,1,6,14}; precision {none,0,2,7}", nd),
			Run: func(c *Ctx, u int) {
				xo := vals[u]
				x := xo.Build()
				isDyadic := u < nd
				var fl64 float64
				if isDyadic {
					fl64, _ = x.Float64()
				}
				for _, verb := range []byte{'e', 'E', 'f', 'F', 'g', 'G', 'v', 's', 'b', 'p'} {
					for fl := 0; fl < 16; fl++ {
						plus, space, zero, minus := fl&1 != 0, fl&2 != 0, fl&4 != 0, fl&8 != 0
						for _, w := range []int{-1, 1, 6, 14} {
							for _, p := range []int{-1, 0, 2, 7} {
								if c.Skip() {
									continue
								}
								format := fmtString(verb, plus, space, zero, minus, w, p)
								var got string
								pv, _ := protect(func() {
									if verb == 'p' {
										// fmt never hands %p to a Formatter (it prints the pointer); drive Format directly
										st := &fakeState{plus: plus, space: space, zero: zero, minus: minus, wid: w, prec: p}
										x.Format(st, 'p')
										got = st.buf.String()
									} else {
										got = fmt.Sprintf(format, x)
									}
								})
								key := func() string { return fmt.Sprintf("Sprintf(%q) x=%s mode=%s", format, xo, modeName(xo.Mode)) }
								if pv != nil {
									c.Fail(key(), fmt.Sprintf("panic: %v", pv))
									continue
								}
								c.NonTrivial()
								// model
								tf, tp := verb, p
								switch verb {
								case 'F':
									tf = 'f'
								case 'v':
									tf = 'g'
								case 's':
									tf = 'g'
									if tp < 0 {
										tp = 10
									}
								}
								if tp < 0 {
									switch tf {
									case 'e', 'E', 'f':
										tp = 6
									case 'b', 'p':
										tp = 0
									}
								}
								want := refPad(refText(xo.V, xo.Prec, xo.Mode, tf, tp), plus, space, zero, minus, w, w >= 0)
								if got != want {
									c.Fail(key(), fmt.Sprintf("got %q, reference formatter + fmt padding rules give %q", got, want))
									continue
								}
								// direct differential against fmt on the float64 itself
								if isDyadic && (verb == 'e' || verb == 'E' || verb == 'f' || verb == 'F' || ((verb == 'g' || verb == 'G') && p >= 0)) {
									if ff := fmt.Sprintf(format, fl64); ff != got {
										c.Fail(key()+" [fmt float64]", fmt.Sprintf("Decimal prints %q, fmt prints %q for the same float64 value", got, ff))
									}
								}
								c.Outcome(fnvStr(0, got))
								if c.WantSample() {
									c.Sample(fmt.Sprintf("%s = %q", key(), got))
								}
							}
						}
					}
				}
				// unknown verb: must not panic and must mention the verb
				if !c.Skip() {
					got := fmt.Sprintf("%d|%x|%q", x, x, x)
					if !strings.Contains(got, "%!d(") || !strings.Contains(got, "%!x(") {
						c.Fail("unknown verbs x="+xo.String(), "got "+got)
					}
				}
			},
		})
	}
	// V6: every explicit precision 0..300 (zero padding written in blocks, digit counts far beyond the mantissa)
	{
		vals := []*Opnd{
			mkInt64(125, 0, 5, 0), mkInt64(1, 0, 1, 0), mkInt64(9995, -3, 4, 0), mkInt64(1, -3, 3, 0), mkInt64(-5, -1, 2, 0),
			mkCoef(false, mustInt("12345678901234567890123"), -4, 25, 0), mkCoef(true, mustInt("99999999999999999999"), 7, 20, 0),
		}
		layers = append(layers, Layer{
			Name:   "V6-every-precision-up-to-300",
			Units:  len(vals),
			Bounds: "7 values (1..23 digits, ±, integers and fractions) × formats e, E, f, g, G × every precision 0..300 × modes Even/AwayFromZero against the reference formatter",
			Run: func(c *Ctx, u int) {
				for _, m := range []uint8{ToNearestEven, AwayFromZero} {
					xo := *vals[u]
					xo.Mode = m
					x := xo.Build()
					for _, f := range []byte{'e', 'E', 'f', 'g', 'G'} {
						for p := 0; p <= 300; p++ {
							textCase(c, &xo, x, f, p)
						}
					}
				}
			},
		})
	}
	return layers
}

func init() {
	register(&Property{
		ID: "C13", Level: "model_checking",
		Rule: "a case is (value, x.mode, format/verb, precision[, flags, width]); non-trivial when an explicit precision is given (a rounding position is exercised) or a fmt verb with flags is formatted",
		Assumptions: []string{
			"reference formatter mc/format.go, checked in the same run against strconv.FormatFloat (layout, %g thresholds, exponent digits) and against fmt.Sprintf on float64 (sign, width, flags) — a mismatch there is a harness error, not a violation",
			"the '#' flag is not part of the property and is not exercised",
		},
		Layers: func(tier string) []Layer {
			formatSelfCheck()
			return formatLayers(tier)
		},
	})
}
