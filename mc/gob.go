package main

// C17: gob round trip of every attribute; decoding is safe on any bytes.

import (
	"bytes"
	"encoding/binary"
	"encoding/gob"
	"fmt"
	"math"
	"math/big"
)

// gobModel decodes a payload the way the format is documented (version 1):
//
//	[0] version  [1] mode<<5 | (acc+1)<<3 | form<<1 | neg  [2:6] prec  [6:10] exp  [10:] mantissa (big endian words)
//
// It returns ok=false when the payload is not the encoding of a canonical Decimal.
func gobModel(buf []byte) (o Obs, ok bool) {
	if len(buf) == 0 {
		return Obs{}, true // zero value
	}
	if buf[0] != 1 || len(buf) < 6 {
		return o, false
	}
	b := buf[1]
	o.Mode = (b >> 5) & 7
	accBits := (b >> 3) & 3
	o.Acc = int8(accBits) - 1
	o.Form = int8((b >> 1) & 3)
	o.Neg = b&1 != 0
	o.Prec = binary.BigEndian.Uint32(buf[2:])
	if o.Mode > 5 || accBits == 3 || o.Form == 3 {
		return o, false
	}
	if o.Form != fFinite {
		return o, len(buf) == 6
	}
	if len(buf) < 11 {
		return o, false
	}
	o.Exp = int32(binary.BigEndian.Uint32(buf[6:]))
	mb := buf[10:]
	// words from the end
	var ws []uint64
	for i := len(mb); i > 0; i -= 8 {
		lo := i - 8
		if lo < 0 {
			lo = 0
		}
		var w uint64
		for _, by := range mb[lo:i] {
			w = w<<8 | uint64(by)
		}
		ws = append(ws, w)
	}
	for len(ws) > 0 && ws[len(ws)-1] == 0 {
		ws = ws[:len(ws)-1]
	}
	o.Words = ws
	o.Len = len(ws)
	return o, Canonical(o) == ""
}

func gobSources(tier string) []*Dec {
	var out []*Dec
	var base []*Opnd
	for i, cf := range DCoefs(2) {
		if i%3 == 0 {
			base = append(base, mkInt64(cf, 0, 34, 0))
		}
	}
	for _, v := range WVecs(3, S7) {
		base = append(base, mkWords(false, v, 0, 0, 0))
	}
	J := 30
	for _, s := range RunLengthStrings(J) {
		base = append(base, mkCoef(false, mustInt(s), 0, uint32(len(s)), 0))
	}
	exps := []int64{-3, 0, 1, 2, MinExp, MinExp + 1, MaxExp - 1, MaxExp}
	k := 0
	for _, b := range base {
		mp := uint32(minPrecWords(b.Words))
		for _, e := range exps {
			for _, p := range []uint32{mp, 34, 57} {
				if p < mp {
					continue
				}
				k++
				o := *b
				o.Exp, o.Prec, o.Mode = e, p, uint8(k%6)
				o.Neg = k%2 == 1
				o.V.Neg = o.Neg
				o.V.E10 = e - int64(len(o.Words))*DW
				d := o.Build()
				// accuracy decoration by a real rounding
				switch k % 3 {
				case 1, 2:
					tiny := Val{Form: fFinite, Neg: o.Neg, Coef: big1, E10: o.V.E10 - 30}
					if k%3 == 2 {
						tiny.Neg = !tiny.Neg
					}
					xp := addExact(o.V, tiny)
					if xp.Exp() > MaxExp || xp.Exp() < MinExp || xp.E10 < MinExp+50 {
						break
					}
					src := mkCoef(xp.Neg, xp.Coef, xp.E10, uint32(ndigits(xp.Coef)), 0)
					z := fresh(mp, ToZero)
					if k%3 == 2 {
						z.SetMode(3) // AwayFromZero
					}
					z.Set(src.Build())
					if Observe(z).Val().Equal(o.V) {
						// install requested precision/mode without touching acc: SetPrec to a larger value keeps acc? it resets to Exact,
						// so only keep the decoration when the precision already matches
						if p == mp {
							d = z
						}
					}
				}
				out = append(out, d)
			}
		}
	}
	for _, f := range []int8{fZero, fInf} {
		for _, n := range []bool{false, true} {
			for _, p := range []uint32{0, 1, 34} {
				out = append(out, mkSpecial(f, n, p, uint8(p%6)).Build())
			}
		}
	}
	for _, o := range staleSpecials(9, ToZero) {
		out = append(out, o.Build()) // ±0/±Inf in variables that held finite values before
	}
	// infinities and zeros that still carry the accuracy of the overflow / underflow that produced them
	for k, p := range []uint32{1, 34} {
		for _, neg := range []bool{false, true} {
			big1e := mkInt64(1, 0, 5, 0)
			big1e.Exp, big1e.V.E10 = MaxExp, MaxExp-DW
			sm := mkInt64(1, 0, 5, 0)
			sm.Exp, sm.V.E10 = MinExp, MinExp-DW
			y := mkInt64(3, 0, 5, 0)
			if neg {
				y.Neg, y.V.Neg = true, true
			}
			zi := fresh(p, uint8(k+1))
			zi.Mul(big1e.Build(), new(Dec).Mul(y.Build(), big1e.Build())) // ±Inf by overflow: Above / Below
			zz := fresh(p, uint8(k+3))
			zz.Mul(sm.Build(), new(Dec).Mul(y.Build(), sm.Build())) // ±0 by underflow: Below / Above
			if !zi.IsInf() || zi.Acc() == 0 || !zz.IsZero() || zz.Acc() == 0 {
				panic(fmt.Sprintf("gobSources: overflow/underflow decoration failed: %v acc %v, %v acc %v", zi, zi.Acc(), zz, zz.Acc()))
			}
			out = append(out, zi, zz)
		}
	}
	// precisions at the top of the uint32 range (word-count arithmetic must not wrap)
	for _, p := range []uint32{math.MaxUint32, math.MaxUint32 - 1, math.MaxUint32 - 17, math.MaxUint32 - 18, math.MaxUint32 - 19, 1 << 31} {
		o := mkInt64(-12345, 3, p, ToZero)
		out = append(out, o.Build())
		o2 := mkWords(false, []uint64{BW - 1, BW - 1}, -7, p, ToNearestAway)
		out = append(out, o2.Build())
	}
	// Decimals whose mantissa is longer than the precision needs (extra low zero words): obtained by
	// decoding a valid encoding extended by whole zero words, which denotes the same value
	nb := len(out)
	for i := 0; i < nb; i += 7 {
		enc, err := out[i].GobEncode()
		if err != nil || len(enc) <= 10 {
			continue
		}
		for _, extra := range []int{8, 16} {
			d := new(Dec)
			if d.GobDecode(append(append([]byte(nil), enc...), make([]byte, extra)...)) == nil && d.Cmp(out[i]) == 0 {
				out = append(out, d)
			}
		}
	}
	return out
}

func sameObsFull(a, b Obs) bool {
	if a.Form != b.Form || a.Neg != b.Neg || a.Prec != b.Prec || a.Mode != b.Mode || a.Acc != b.Acc {
		return false
	}
	if a.Form == fFinite {
		return a.Exp == b.Exp && a.Val().Equal(b.Val())
	}
	return true
}

func hostileCase(c *Ctx, buf []byte, desc func() string, pre int) {
	if c.Skip() {
		return
	}
	z := buildPre(pre, 0, 0)
	switch pre {
	case preLonger:
		z = buildPre(pre, 7, ToZero)
	case preCapExact:
		z = buildPre(pre, 38, ToNearestAway) // a 2-word value filling its buffer
	case preBigDirty:
		z = buildPre(pre, 19, ToZero)
	}
	cp := append([]byte(nil), buf...)
	var err error
	pv, _ := protect(func() { err = z.GobDecode(cp) })
	if pv != nil {
		c.Fail(desc(), fmt.Sprintf("GobDecode panicked: %v", pv))
		return
	}
	if !bytes.Equal(cp, buf) {
		c.Fail(desc(), "GobDecode modified its input")
	}
	c.Outcome(b2u(err == nil))
	if err != nil {
		// rejected: whatever the receiver holds now, it must be a canonical Decimal
		if pre != preFresh {
			if msg := Canonical(Observe(z)); msg != "" {
				c.Fail(desc(), fmt.Sprintf("payload rejected (%v) but the receiver is left malformed: %s", err, msg))
			}
		}
		return
	}
	o := Observe(z)
	if msg := Canonical(o); msg != "" {
		c.Fail(desc(), fmt.Sprintf("no error, but the receiver is malformed: %s (%s)", msg, o))
		return
	}
	c.NonTrivial()
	if m, ok := gobModel(buf); ok && pre == preFresh {
		if len(buf) == 0 {
			m = Obs{}
		}
		if !sameObsFull(o, m) {
			c.Fail(desc(), fmt.Sprintf("well-formed payload decoded to %s, the format says %s", o, m))
		}
	}
}

func gobLayers(tier string) []Layer {
	thorough4 := tier == "thorough" // thorough: every 4-byte payload, not only those starting with the version byte
	var layers []Layer
	var srcs []*Dec
	nsrc := len(gobSources(tier))
	const chunk = 128
	layers = append(layers, Layer{
		Name:   "J1-roundtrip",
		Units:  (nsrc + chunk - 1) / chunk,
		Bounds: fmt.Sprintf("%d source Decimals (D(2) subset ∪ W(3,S7) ∪ run-length strings ∪ ±0 ±Inf) × exponents {-3,0,1,2,MinExp,MinExp+1,MaxExp-1,MaxExp} × precision {MinPrec,34,57} × 6 modes × accuracy decorations; decoded into a zero value (all attributes identical), through encoding/gob, and into receivers with precision {1,3,19,40} × 6 modes (precision and mode kept, value correctly rounded)", nsrc),
		Run: func(c *Ctx, u int) {
			if srcs == nil {
				srcs = gobSources(tier)
			}
			for i := u * chunk; i < (u+1)*chunk && i < len(srcs); i++ {
				x := srcs[i]
				xo := Observe(x)
				key := func(s string) string { return fmt.Sprintf("gob %s x=%s", s, xo) }
				if c.Skip() {
					continue
				}
				var b []byte
				var err error
				pv, _ := protect(func() { b, err = x.GobEncode() })
				if pv != nil || err != nil {
					c.Fail(key("encode"), fmt.Sprintf("panic=%v err=%v", pv, err))
					continue
				}
				c.NonTrivial()
				if !sameObsFull(Observe(x), xo) {
					c.Fail(key("encode"), "GobEncode modified x")
				}
				// the encoding itself must be what the format documents
				if m, ok := gobModel(b); !ok || !sameObsFull(m, xo) {
					c.Fail(key("encode"), fmt.Sprintf("encoding % x does not denote x (format model: %s ok=%v)", b, m, ok))
				}
				// the returned bytes stay valid while other values are encoded
				keep := string(b)
				for _, k := range []int{i + 1, i + len(srcs)/2, len(srcs) - 1 - i%5} {
					srcs[k%len(srcs)].GobEncode()
				}
				if string(b) != keep {
					c.Fail(key("encode"), fmt.Sprintf("the returned encoding changed after later GobEncode calls: % x became % x", keep, b))
					continue
				}
				z := new(Dec)
				pv, _ = protect(func() { err = z.GobDecode(b) })
				if pv != nil || err != nil {
					c.Fail(key("decode"), fmt.Sprintf("panic=%v err=%v", pv, err))
					continue
				}
				if o := Observe(z); !sameObsFull(o, xo) {
					c.Fail(key("decode"), fmt.Sprintf("decoded %s", o))
				}
				// through encoding/gob
				var buf bytes.Buffer
				z2 := buildPre(preInf, 0, 0)
				if err := gob.NewEncoder(&buf).Encode(x); err != nil {
					c.Fail(key("gob.Encode"), err.Error())
				} else if err := gob.NewDecoder(&buf).Decode(z2); err != nil {
					c.Fail(key("gob.Decode"), err.Error())
				} else if o := Observe(z2); !sameObsFull(o, xo) {
					c.Fail(key("gob stream"), fmt.Sprintf("decoded %s", o))
				}
				// into attributed receivers
				for _, p := range []uint32{1, 3, 19, 40} {
					for _, m := range M6 {
						if c.Skip() {
							continue
						}
						r := buildPre(preLonger, p, m)
						pv, _ := protect(func() { err = r.GobDecode(b) })
						if pv != nil || err != nil {
							c.Fail(key(fmt.Sprintf("decode into prec=%d mode=%d", p, m)), fmt.Sprintf("panic=%v err=%v", pv, err))
							continue
						}
						o := Observe(r)
						exp := RoundVal(xo.Val(), p, m)
						if exp.Acc != 0 {
							c.NonTrivial()
						}
						if o.Prec != p || o.Mode != m {
							c.Fail(key(fmt.Sprintf("decode into prec=%d mode=%d", p, m)), fmt.Sprintf("receiver attributes not kept: %s", o))
						} else if msg := Canonical(o); msg != "" {
							c.Fail(key(fmt.Sprintf("decode into prec=%d mode=%d", p, m)), "malformed: "+msg)
						} else if !matchValue(o, exp) {
							c.Fail(key(fmt.Sprintf("decode into prec=%d mode=%d", p, m)), cmpValue(o, exp))
						} else if exp.Acc != 0 && o.Acc != exp.Acc {
							// the statement says nothing about Acc() here, except what "correctly rounded" implies:
							// when this decoding rounded, the accuracy cannot point the other way or claim exactness
							c.Fail(key(fmt.Sprintf("decode into prec=%d mode=%d", p, m)), fmt.Sprintf("the value was rounded (%s) but Acc() = %d", exp, o.Acc))
						} else if exp.Acc == 0 && o.Acc != 0 && o.Acc != xo.Acc {
							c.Fail(key(fmt.Sprintf("decode into prec=%d mode=%d", p, m)), fmt.Sprintf("nothing was rounded and the sender's accuracy was %d, but Acc() = %d", xo.Acc, o.Acc))
						}
					}
				}
				if c.WantSample() {
					c.Sample(fmt.Sprintf("%s = % x", key("encode"), b))
				}
			}
		},
	})
	// hostile: all short byte strings
	layers = append(layers, Layer{
		Name:  "J2-all-short-payloads",
		Units: 258,
		Bounds: map[bool]string{false: "every byte string of length 0..3 (16 843 009 payloads) and every 4-byte string starting with the valid version byte 01 (16 777 216 more) decoded into a zero-value receiver: no panic; error or canonical receiver",
			true: "every byte string of length 0..4 (4 311 810 305 payloads) decoded into a zero-value receiver: no panic; error or canonical receiver"}[thorough4],
		Run: func(c *Ctx, u int) {
			switch {
			case u == 256:
				hostileCase(c, nil, func() string { return "payload <empty>" }, preFresh)
				for a := 0; a < 256; a++ {
					b := []byte{byte(a)}
					hostileCase(c, b, func() string { return fmt.Sprintf("payload % x", b) }, preFresh)
				}
			case u == 257:
				for a := 0; a < 256; a++ {
					for b2 := 0; b2 < 256; b2++ {
						b := []byte{byte(a), byte(b2)}
						hostileCase(c, b, func() string { return fmt.Sprintf("payload % x", b) }, preFresh)
					}
				}
			default:
				for b2 := 0; b2 < 256; b2++ {
					for b3 := 0; b3 < 256; b3++ {
						b := []byte{byte(u), byte(b2), byte(b3)}
						hostileCase(c, b, func() string { return fmt.Sprintf("payload % x", b) }, preFresh)
						if u == 1 || thorough4 {
							step := 1
							for b4 := 0; b4 < 256; b4 += step {
								bb := []byte{byte(u), byte(b2), byte(b3), byte(b4)}
								hostileCase(c, bb, func() string { return fmt.Sprintf("payload % x", bb) }, preFresh)
							}
						}
					}
				}
			}
		},
	})
	// hostile: corruptions of valid encodings
	nEnc := 64
	layers = append(layers, Layer{
		Name:   "J3-corrupted-encodings",
		Units:  nEnc,
		Bounds: "64 valid encodings (1..3-word mantissas, specials, all modes): every truncation length, every single-byte substitution by all 256 values, every pair of substitutions in the 10-byte header from {00,01,07,7f,80,ff}, every extension by 1..9 bytes of {00, ff}, mantissa words replaced by 10^19 / 2^64-1 / 0; decoded into a zero-value receiver and into three receivers that hold finite values (4-word value rounded to 7 digits in an 8-word buffer; 2-word value filling its buffer; 1-word value in a 40-word dirty buffer): no panic; success ⇒ canonical (and the format's meaning); rejection ⇒ the receiver is still canonical",
		Run: func(c *Ctx, u int) {
			if srcs == nil {
				srcs = gobSources(tier)
			}
			x := srcs[(u*len(srcs))/nEnc]
			enc, err := x.GobEncode()
			if err != nil {
				c.Fail("encode", err.Error())
				return
			}
			desc := func(kind string, b []byte) func() string {
				return func() string { return fmt.Sprintf("%s of % x -> % x", kind, enc, b) }
			}
			for _, pre := range []int{preFresh, preLonger, preCapExact, preBigDirty} {
				for n := 0; n <= len(enc); n++ {
					b := enc[:n]
					hostileCase(c, b, desc("truncation", b), pre)
				}
				for i := range enc {
					for v := 0; v < 256; v++ {
						if byte(v) == enc[i] {
							continue
						}
						b := append([]byte(nil), enc...)
						b[i] = byte(v)
						hostileCase(c, b, desc("substitution", b), pre)
					}
				}
				hdr := len(enc)
				if hdr > 10 {
					hdr = 10
				}
				vals := []byte{0x00, 0x01, 0x07, 0x7f, 0x80, 0xff}
				for i := 1; i < hdr; i++ {
					for j := i + 1; j < hdr; j++ {
						for _, vi := range vals {
							for _, vj := range vals {
								b := append([]byte(nil), enc...)
								b[i], b[j] = vi, vj
								hostileCase(c, b, desc("pair", b), pre)
							}
						}
					}
				}
				for n := 1; n <= 9; n++ {
					for _, v := range []byte{0x00, 0xff} {
						b := append(append([]byte(nil), enc...), bytes.Repeat([]byte{v}, n)...)
						hostileCase(c, b, desc("extension", b), pre)
						b2 := append(append([]byte(nil), enc[:min(10, len(enc))]...), bytes.Repeat([]byte{v}, n)...)
						hostileCase(c, b2, desc("header+junk", b2), pre)
					}
				}
				if len(enc) >= 18 {
					for _, w := range []uint64{BW, 1<<64 - 1, 0, BW/10 - 1} {
						for off := 10; off+8 <= len(enc); off += 8 {
							b := append([]byte(nil), enc...)
							binary.BigEndian.PutUint64(b[off:], w)
							hostileCase(c, b, desc("word", b), pre)
						}
					}
				}
			}
		},
	})
	_ = big.NewInt
	return layers
}

func init() {
	register(&Property{
		ID: "C17", Level: "fault_enumeration",
		Rule: "a case is (source Decimal, receiver attributes) for round trips or (payload, receiver pre-state) for hostile input; all payloads distinct by construction; a hostile case is non-trivial when decoding succeeds (the receiver must then be canonical and, for well-formed payloads, equal to the format's meaning)",
		Assumptions: []string{
			"format model written from the GobEncode comments (version 1 layout)",
			"Acc() after decoding into a receiver with non-zero precision is judged only as far as \"correctly rounded\" implies: the direction of the rounding when this decoding rounded; Exact or the sender's accuracy when it did not",
		},
		Layers: gobLayers,
	})
}
