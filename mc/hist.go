package main

// Engine E2: explicit-state breadth-first search over API-call histories on
// real objects. Serves C08 (canonical form in every state), C09 (attribute
// model + operands untouched) and C10 (differential: aliased/dirty execution
// == fresh/unaliased execution of the same operation).

import (
	"bytes"
	"encoding/binary"
	"fmt"
	"math"
	"math/big"
	"strings"
	"sync"

	"github.com/db47h/decimal"
)

const nVars = 3

// HOp is one fully instantiated API call on the variable set.
type HOp struct {
	Name string
	Dst  int   // receiver variable
	Srcs []int // Decimal operands (variable indices), may include Dst (aliasing)
	// Do applies the call to receiver z with the operand Decimals.
	Do func(z *Dec, s []*Dec)
	// RecvIsInput: the receiver's current value is an input of the operation (SetPrec, SetMode, ...).
	RecvIsInput bool
	// attribute model (C09): kind of precision rule when the receiver precision is 0
	PrecRule        int
	PrecConst       uint32
	CopiesAttrsFrom int  // index into Srcs whose prec/mode/acc are copied (Copy, SetMantExp), -1 otherwise
	ModeSet         int  // >= 0: the call sets the mode to this value (SetMode)
	Out             int  // >= 0: variable written as an out-parameter (MantExp(out)); Dst is then only read
	NoDiff          bool // C10 differential not applicable (result defined by the receiver's buffer etc.)
	ReadOnly        bool // conversions / formatting / predicates on Dst: no variable may change at all
	Additive        bool // Add, Sub, FMA (alignment shift ∝ exponent gap)
}

const (
	prKeep      = iota // precision never changes (SetInf, SetMode...)
	prMaxSrcs          // 0 -> max precision of the operands
	prConst            // 0 -> PrecConst
	prExplicit         // set explicitly by the call (SetPrec) to PrecConst
	prFree             // 0 -> anything >= MinPrec (no documented rule: SetBitsExp) / payload-defined (GobDecode)
	prIntDigits        // 0 -> max(digits, 34) computed by the model from the argument (stored in PrecConst)
)

var varNames = []string{"a", "b", "c"}

func histOps(reduced bool) []HOp {
	var ops []HOp
	add := func(o HOp) {
		if o.Out == 0 && o.Name != "" && !strings.Contains(o.Name, "MantExp(out") {
			o.Out = -1
		}
		ops = append(ops, o)
	}
	V := []int{0, 1, 2}
	srcPairs := [][2]int{}
	for _, x := range V {
		for _, y := range V {
			srcPairs = append(srcPairs, [2]int{x, y})
		}
	}
	bin := []struct {
		n string
		f func(z, x, y *Dec)
	}{
		{"Add", func(z, x, y *Dec) { z.Add(x, y) }}, {"Sub", func(z, x, y *Dec) { z.Sub(x, y) }},
		{"Mul", func(z, x, y *Dec) { z.Mul(x, y) }}, {"Quo", func(z, x, y *Dec) { z.Quo(x, y) }},
	}
	for _, b := range bin {
		b := b
		for _, d := range V {
			for _, p := range srcPairs {
				if reduced && d == 2 && p[0] != p[1] && p[0] != d && p[1] != d {
					continue
				}
				add(HOp{Name: fmt.Sprintf("%s.%s(%s,%s)", varNames[d], b.n, varNames[p[0]], varNames[p[1]]), Dst: d, Srcs: []int{p[0], p[1]},
					Do: func(z *Dec, s []*Dec) { b.f(z, s[0], s[1]) }, PrecRule: prMaxSrcs, CopiesAttrsFrom: -1, ModeSet: -1, Additive: b.n == "Add" || b.n == "Sub"})
			}
		}
	}
	// FMA: a restricted set of operand triples, all destinations
	for _, d := range V {
		triples := [][3]int{{0, 1, 2}, {0, 0, 0}, {1, 1, 0}, {2, 0, 2}, {0, 1, 1}, {1, 2, 0}, {2, 2, 1}}
		if reduced {
			triples = triples[:3]
		}
		for _, t := range triples {
			t := t
			add(HOp{Name: fmt.Sprintf("%s.FMA(%s,%s,%s)", varNames[d], varNames[t[0]], varNames[t[1]], varNames[t[2]]), Dst: d, Srcs: []int{t[0], t[1], t[2]},
				Do: func(z *Dec, s []*Dec) { z.FMA(s[0], s[1], s[2]) }, PrecRule: prMaxSrcs, CopiesAttrsFrom: -1, ModeSet: -1, Additive: true})
		}
	}
	un := []struct {
		n    string
		f    func(z, x *Dec)
		copy bool
	}{
		{"Sqrt", func(z, x *Dec) { z.Sqrt(x) }, false}, {"Set", func(z, x *Dec) { z.Set(x) }, false},
		{"Neg", func(z, x *Dec) { z.Neg(x) }, false}, {"Abs", func(z, x *Dec) { z.Abs(x) }, false},
		{"Copy", func(z, x *Dec) { z.Copy(x) }, true},
	}
	for _, u := range un {
		u := u
		for _, d := range V {
			for _, x := range V {
				o := HOp{Name: fmt.Sprintf("%s.%s(%s)", varNames[d], u.n, varNames[x]), Dst: d, Srcs: []int{x},
					Do: func(z *Dec, s []*Dec) { u.f(z, s[0]) }, PrecRule: prMaxSrcs, CopiesAttrsFrom: -1, ModeSet: -1}
				if u.copy {
					o.CopiesAttrsFrom = 0
				}
				add(o)
			}
		}
	}
	for _, d := range V {
		d := d
		dn := varNames[d]
		sp := []uint{0, 1, 2, 3, 20, 39}
		if reduced {
			sp = []uint{0, 1, 3, 20}
		}
		for _, p := range sp {
			p := p
			add(HOp{Name: fmt.Sprintf("%s.SetPrec(%d)", dn, p), Dst: d, Do: func(z *Dec, s []*Dec) { z.SetPrec(p) }, RecvIsInput: true, PrecRule: prExplicit, PrecConst: uint32(p), CopiesAttrsFrom: -1, ModeSet: -1})
		}
		for m := 0; m < 6; m++ {
			m := m
			if reduced && (m == 1 || m == 5) {
				continue
			}
			add(HOp{Name: fmt.Sprintf("%s.SetMode(%d)", dn, m), Dst: d, Do: func(z *Dec, s []*Dec) { z.SetMode(decimal.RoundingMode(m)) }, RecvIsInput: true, PrecRule: prKeep, CopiesAttrsFrom: -1, ModeSet: m})
		}
		i64s := []int64{0, 1, -7, 15, 99, 1000000000000000000, -995}
		if reduced {
			i64s = []int64{0, -7, 99, 1000000000000000000}
		}
		for _, v := range i64s {
			v := v
			add(HOp{Name: fmt.Sprintf("%s.SetInt64(%d)", dn, v), Dst: d, Do: func(z *Dec, s []*Dec) { z.SetInt64(v) }, PrecRule: prConst, PrecConst: 34, CopiesAttrsFrom: -1, ModeSet: -1})
		}
		add(HOp{Name: dn + ".SetUint64(max)", Dst: d, Do: func(z *Dec, s []*Dec) { z.SetUint64(math.MaxUint64) }, PrecRule: prConst, PrecConst: 34, CopiesAttrsFrom: -1, ModeSet: -1})
		add(HOp{Name: dn + ".SetUint64(10^19)", Dst: d, Do: func(z *Dec, s []*Dec) { z.SetUint64(BW) }, PrecRule: prConst, PrecConst: 34, CopiesAttrsFrom: -1, ModeSet: -1})
		add(HOp{Name: dn + ".SetUint64(10^19-1)", Dst: d, Do: func(z *Dec, s []*Dec) { z.SetUint64(BW - 1) }, PrecRule: prConst, PrecConst: 34, CopiesAttrsFrom: -1, ModeSet: -1})
		strs := []string{"1.5", "-0", "1e-3", "0x1p-1", "Inf", "12345678901234567890123456789012345678901234567890", "-9.99e5", "0.0000000000000000000", "0.00000000000000000001234567890123456789", "00000000000000000001000000000000000000"}
		if reduced {
			strs = []string{"1.5", "-0", "Inf", "0x1p-1", "12345678901234567890123456789012345678901234567890", "0.0000000000000000000", "0.00000000000000000001234567890123456789"}
		}
		for _, sv := range strs {
			sv := sv
			add(HOp{Name: fmt.Sprintf("%s.SetString(%q)", dn, sv), Dst: d, Do: func(z *Dec, s []*Dec) { z.SetString(sv) }, PrecRule: prConst, PrecConst: 34, CopiesAttrsFrom: -1, ModeSet: -1})
		}
		// literals that are rejected: "the value of z is valid but not defined" — the state must stay canonical
		bad := []string{"1e2147483648", "77e-2147483652", "9.9x", "1e99999999999999999999", "0.5e2147483648", "0x1p", "1__2"}
		if reduced {
			bad = []string{"1e2147483648", "77e-2147483652", "9.9x"}
		}
		for _, sv := range bad {
			sv := sv
			add(HOp{Name: fmt.Sprintf("%s.SetString(%q) [rejected]", dn, sv), Dst: d, Do: func(z *Dec, s []*Dec) {
				if _, ok := z.SetString(sv); ok {
					panic("SetString accepted " + sv)
				}
			}, PrecRule: prFree, CopiesAttrsFrom: -1, ModeSet: -1, NoDiff: true})
		}
		for _, f := range []float64{0.25, 1e300, -0.1, 12345, 4503599627370497} {
			f := f
			add(HOp{Name: fmt.Sprintf("%s.SetFloat64(%v)", dn, f), Dst: d, Do: func(z *Dec, s []*Dec) { z.SetFloat64(f) }, PrecRule: prConst, PrecConst: 17, CopiesAttrsFrom: -1, ModeSet: -1})
		}
		add(HOp{Name: dn + ".SetFloat(1/3@24)", Dst: d, Do: func(z *Dec, s []*Dec) {
			z.SetFloat(new(big.Float).SetPrec(24).Quo(big.NewFloat(1), big.NewFloat(3)))
		}, PrecRule: prConst, PrecConst: 8, CopiesAttrsFrom: -1, ModeSet: -1})
		add(HOp{Name: dn + ".SetRat(1/3)", Dst: d, Do: func(z *Dec, s []*Dec) { z.SetRat(big.NewRat(1, 3)) }, PrecRule: prConst, PrecConst: 34, CopiesAttrsFrom: -1, ModeSet: -1})
		add(HOp{Name: dn + ".SetRat(0)", Dst: d, Do: func(z *Dec, s []*Dec) { z.SetRat(new(big.Rat)) }, PrecRule: prConst, PrecConst: 34, CopiesAttrsFrom: -1, ModeSet: -1})
		add(HOp{Name: dn + ".SetInt(10^40+1)", Dst: d, Do: func(z *Dec, s []*Dec) { z.SetInt(new(big.Int).Add(p10(40), big1)) }, PrecRule: prConst, PrecConst: 41, CopiesAttrsFrom: -1, ModeSet: -1})
		add(HOp{Name: dn + ".SetInt(0)", Dst: d, Do: func(z *Dec, s []*Dec) { z.SetInt(new(big.Int)) }, PrecRule: prConst, PrecConst: 34, CopiesAttrsFrom: -1, ModeSet: -1})
		for _, sb := range []bool{false, true} {
			sb := sb
			add(HOp{Name: fmt.Sprintf("%s.SetInf(%v)", dn, sb), Dst: d, Do: func(z *Dec, s []*Dec) { z.SetInf(sb) }, PrecRule: prKeep, CopiesAttrsFrom: -1, ModeSet: -1})
		}
		for _, x := range V {
			for _, e := range []int{-1, 0, 1, math.MaxInt32, math.MinInt32} {
				e := e
				if reduced && x != d && e != 1 {
					continue
				}
				add(HOp{Name: fmt.Sprintf("%s.SetMantExp(%s,%d)", dn, varNames[x], e), Dst: d, Srcs: []int{x}, Do: func(z *Dec, s []*Dec) { z.SetMantExp(s[0], e) }, PrecRule: prKeep, CopiesAttrsFrom: 0, ModeSet: -1})
			}
			x := x
			if x != d {
				add(HOp{Name: fmt.Sprintf("%s.MantExp(out=%s)", dn, varNames[x]), Dst: x, Srcs: []int{d}, Do: func(z *Dec, s []*Dec) { s[0].MantExp(z) }, PrecRule: prKeep, CopiesAttrsFrom: 0, ModeSet: -1, Out: x})
				add(HOp{Name: fmt.Sprintf("%s.GobDecode(%s.GobEncode())", dn, varNames[x]), Dst: d, Srcs: []int{x}, Do: func(z *Dec, s []*Dec) {
					b, err := s[0].GobEncode()
					if err != nil {
						panic(err)
					}
					if err := z.GobDecode(b); err != nil {
						panic(err)
					}
				}, PrecRule: prFree, CopiesAttrsFrom: -1, ModeSet: -1, NoDiff: false})
			}
		}
		vecs := [][]uint64{{1}, {BW - 1}, {0, 1}, {BW - 1, BW - 1}, {1, 0}, {BW / 2, 0, 0}, {0, 0}, {}, {5, BW / 10}}
		if reduced {
			vecs = vecs[:5]
		}
		for _, v := range vecs {
			v := v
			for _, e := range []int64{0, -5} {
				e := e
				if reduced && e != 0 {
					continue
				}
				add(HOp{Name: fmt.Sprintf("%s.SetBitsExp(%s,%d)", dn, wordsKey(v), e), Dst: d, Do: func(z *Dec, s []*Dec) { z.SetBitsExp(toWords(v), e) }, PrecRule: prFree, CopiesAttrsFrom: -1, ModeSet: -1})
			}
		}
		// raw access within its contract: BitsExp of the receiver, then SetBitsExp with that slice
		add(HOp{Name: dn + ".SetBitsExp(BitsExp())", Dst: d, Do: func(z *Dec, s []*Dec) {
			m, e := z.BitsExp()
			z.SetBitsExp(m, int64(e))
		}, RecvIsInput: true, PrecRule: prFree, CopiesAttrsFrom: -1, ModeSet: -1, NoDiff: true})
		// raw access: the receiver's own mantissa slice edited in place (top word de-normalised) and handed back
		add(HOp{Name: dn + ".SetBitsExp(own BitsExp() slice with the top word divided by 16)", Dst: d, Do: func(z *Dec, s []*Dec) {
			m, e := z.BitsExp()
			if len(m) > 0 {
				m[len(m)-1] /= 16
			}
			z.SetBitsExp(m, int64(e))
		}, RecvIsInput: true, PrecRule: prFree, CopiesAttrsFrom: -1, ModeSet: -1, NoDiff: true})
		// conversions, formatting and predicates: nothing may change (not even the representation)
		add(HOp{Name: dn + ".{Int,Int64,Uint64,Rat,Float64,Float32,Float,Text,Sprintf,MarshalText,GobEncode,IsInt,MinPrec,Cmp,Sign}", Dst: d, Do: func(z *Dec, s []*Dec) {
			if e := z.MantExp(nil); e < 3000 && e > -3000 {
				z.Int(nil)
				z.Rat(nil)
				_ = z.Text('f', 2) // ∝ exponent
			}
			z.Int64()
			z.Uint64()
			z.Float64()
			z.Float32()
			z.Float(nil)
			_ = z.Text('e', 3) + z.Text('g', -1) + fmt.Sprintf("%8.3v|%x", z, z)
			z.MarshalText()
			z.GobEncode()
			_ = z.IsInt()
			_ = z.MinPrec()
			_ = z.Cmp(z) + z.Sign()
		}, RecvIsInput: true, PrecRule: prKeep, CopiesAttrsFrom: -1, ModeSet: -1, NoDiff: true, ReadOnly: true})
		// hostile gob payloads (errors are fine; a successful decode must leave a canonical value)
		for i, pl := range hostilePayloads() {
			pl := pl
			if reduced && i%2 == 1 {
				continue
			}
			add(HOp{Name: fmt.Sprintf("%s.GobDecode(hostile#%d)", dn, i), Dst: d, Do: func(z *Dec, s []*Dec) { _ = z.GobDecode(pl) }, PrecRule: prFree, CopiesAttrsFrom: -1, ModeSet: -1, NoDiff: true})
		}
	}
	return ops
}

func hostilePayloads() [][]byte {
	hdr := func(mode, acc, form, neg byte, prec uint32, exp int32, words ...uint64) []byte {
		b := []byte{1, mode<<5 | acc<<3 | form<<1 | neg}
		b = binary.BigEndian.AppendUint32(b, prec)
		if form == 1 {
			b = binary.BigEndian.AppendUint32(b, uint32(exp))
			for i := len(words) - 1; i >= 0; i-- {
				b = binary.BigEndian.AppendUint64(b, words[i])
			}
		}
		return b
	}
	return [][]byte{
		hdr(3, 1, 1, 0, 1, 2, 5, BW-1),                // precision field 1, 38 digits: must be rejected whatever the receiver's precision
		hdr(0, 1, 1, 0, 19, 1, BW/10-1),               // top digit 0 (also listed below: keeps the parity of the quick selection)
		hdr(0, 1, 1, 0, 19, 1, BW),                    // word >= 10^19
		hdr(0, 1, 1, 0, 19, 1, BW/10-1),               // top digit 0
		hdr(0, 1, 1, 0, 19, 1, 0),                     // zero mantissa, finite form
		hdr(0, 1, 1, 0, 3, 1, 1234500000000000000),    // more digits than prec
		hdr(0, 1, 3, 0, 5, 0),                         // form = 3
		hdr(7, 1, 1, 0, 19, 1, BW/10),                 // mode = 7
		hdr(0, 3, 1, 0, 19, 1, BW/10),                 // acc = 2
		hdr(0, 1, 1, 1, 0, 1, BW/10),                  // prec = 0 finite
		hdr(2, 0, 1, 1, 38, -7, 5, BW-1),              // valid 2-word value
		{1, 2, 3},                                     // short
		hdr(0, 1, 1, 0, 19, math.MaxInt32, BW-1)[:12], // truncated mantissa
	}
}

// seeds: initial variable states
func histSeed(i int) []*Dec {
	vs := make([]*Dec, nVars)
	for k := range vs {
		vs[k] = new(Dec)
	}
	switch i {
	case 0: // all zero values
	case 1:
		vs[0] = buildPre(preLonger, 200, ToNearestEven)
		vs[1] = mkInt64(-15, -1, 3, ToNegativeInf).Build()
	case 2:
		vs[0] = buildPre(preInf, 0, ToZero)
		vs[1] = buildPre(preNegZero, 5, AwayFromZero)
		vs[2] = mkWords(false, []uint64{BW - 1, BW - 1}, 0, 0, ToPositiveInf).Build()
	case 3:
		vs[0] = buildPre(preBigDirty, 19, ToNearestAway)
		vs[1] = buildPre(preInexact, 2, AwayFromZero)
		vs[2] = mkInt64(225, 0, 0+7, ToZero).Build()
	case 4:
		vs[0] = mkWords(true, []uint64{0, 5 * (BW / 10)}, 1, 0, ToNearestEven).Build()
		vs[1] = mkWords(false, []uint64{1, 0, BW / 10}, 20, 0, ToNegativeInf).Build()
		vs[2] = buildPre(preCapExact, 38, ToPositiveInf)
	}
	return vs
}

const nSeeds = 5

type hstate struct {
	seed int
	path []int32
}

func buildHist(ops []HOp, st hstate) []*Dec {
	vs := histSeed(st.seed)
	for _, oi := range st.path {
		applyOp(&ops[oi], vs)
	}
	return vs
}

// additiveGapTooLarge: Add/Sub/FMA materialise the alignment shift, so operands whose
// exponents are millions of digits apart would allocate ∝ gap. Such transitions are not
// taken (stated exclusion; the code path beyond the first zero word is uniform).
func additiveGapTooLarge(o *HOp, vs []*Dec) bool {
	if !o.Additive {
		return false
	}
	lo, hi := math.MaxInt64, math.MinInt64
	for _, s := range o.Srcs {
		v := vs[s]
		if v.IsInf() || v.IsZero() {
			continue
		}
		m, e := v.BitsExp()
		top := int(e)
		bot := int(e) - len(m)*DW
		if o.Name[2] == 'F' && s != o.Srcs[2] {
			// FMA factors: the product's exponent is the sum; be conservative
			top *= 2
			bot *= 2
		}
		if bot < lo {
			lo = bot
		}
		if top > hi {
			hi = top
		}
	}
	return hi > lo && hi-lo > 20000
}

// errSkipped is returned by applyOp for a transition that is deliberately not taken.
var errSkipped = fmt.Errorf("transition not taken: additive exponent gap")

func applyOp(o *HOp, vs []*Dec) (pv interface{}, isNaN bool) {
	if additiveGapTooLarge(o, vs) {
		return errSkipped, false
	}
	srcs := make([]*Dec, len(o.Srcs))
	for i, s := range o.Srcs {
		srcs[i] = vs[s]
	}
	return protect(func() { o.Do(vs[o.Dst], srcs) })
}

func stateKey(vs []*Dec) string {
	var b bytes.Buffer
	for _, v := range vs {
		o := Observe(v)
		fmt.Fprintf(&b, "%d%v|%d|%d|%d|%d|%d|%d|", o.Form, o.Neg, o.Exp*int32(b2i(o.Form == fFinite)), o.Prec, o.Mode, o.Acc, o.Len, o.Cap)
		for _, w := range o.Words {
			fmt.Fprintf(&b, "%x,", w)
		}
		b.WriteByte(';')
	}
	return b.String()
}

func pathString(ops []HOp, st hstate) string {
	var parts []string
	parts = append(parts, fmt.Sprintf("seed%d", st.seed))
	for _, oi := range st.path {
		parts = append(parts, ops[oi].Name)
	}
	return strings.Join(parts, "; ")
}

// histFrontiers computes, silently and identically in every process, the
// de-duplicated BFS levels up to maxLevel (level L = states first reached by L operations).
type histSpace struct {
	ops    []HOp
	levels [][]hstate
	seen   map[string]bool
}

var histCache = map[string]*histSpace{}
var histMu sync.Mutex

func getHistSpace(reduced bool, maxLevel int) *histSpace {
	histMu.Lock()
	defer histMu.Unlock()
	k := fmt.Sprintf("%v/%d", reduced, maxLevel)
	if hs := histCache[k]; hs != nil {
		return hs
	}
	hs := &histSpace{ops: histOps(reduced), seen: map[string]bool{}}
	var l0 []hstate
	for s := 0; s < nSeeds; s++ {
		st := hstate{seed: s}
		hs.seen[stateKey(buildHist(hs.ops, st))] = true
		l0 = append(l0, st)
	}
	hs.levels = append(hs.levels, l0)
	for L := 1; L <= maxLevel; L++ {
		var next []hstate
		for _, st := range hs.levels[L-1] {
			for oi := range hs.ops {
				progressNote.Store(pathString(hs.ops, st) + " => " + hs.ops[oi].Name)
				vs := buildHist(hs.ops, st)
				applyOp(&hs.ops[oi], vs)
				// a state that violates the representation invariant is reported by the judged layer that
				// executes this same transition; it is not expanded (its futures are meaningless and may not terminate)
				malformed := false
				for _, v := range vs {
					if Canonical(Observe(v)) != "" {
						malformed = true
					}
				}
				if malformed {
					continue
				}
				key := stateKey(vs)
				if !hs.seen[key] {
					hs.seen[key] = true
					np := append(append([]int32(nil), st.path...), int32(oi))
					next = append(next, hstate{seed: st.seed, path: np})
				}
			}
		}
		hs.levels = append(hs.levels, next)
	}
	histCache[k] = hs
	return hs
}

// ---------------------------------------------------------------------------
// judges

type histJudge func(c *Ctx, hs *histSpace, st hstate, oi int, before []Obs, vs []*Dec, after []Obs, pv interface{}, isNaN bool)

func keyOf(hs *histSpace, st hstate, oi int) string {
	return pathString(hs.ops, st) + " => " + hs.ops[oi].Name
}

// C08: canonical form in every state; equal values expose equal digits and compare equal.
func judgeCanonical(c *Ctx, hs *histSpace, st hstate, oi int, before []Obs, vs []*Dec, after []Obs, pv interface{}, isNaN bool) {
	if pv != nil && !isNaN {
		if _, isErr := pv.(error); !isErr || !strings.Contains(fmt.Sprint(pv), "GobDecode") {
			// non-ErrNaN panics are C04's subject, but the state must still be inspected
		}
	}
	counted := false
	for i, o := range after {
		if msg := Canonical(o); msg != "" {
			c.Fail(keyOf(hs, st, oi), fmt.Sprintf("variable %s not canonical: %s (%s)", varNames[i], msg, o))
			return
		}
		if o.Form == fFinite {
			if !counted {
				counted = true
				c.NonTrivial()
			}
			// API-level view must agree with the raw view
			if mp := vs[i].MinPrec(); int64(mp) != minPrecWords(o.Words) || mp < 1 || mp > uint(o.Prec) {
				c.Fail(keyOf(hs, st, oi), fmt.Sprintf("variable %s: MinPrec() = %d, Prec() = %d, words %v", varNames[i], mp, o.Prec, o.Words))
				return
			}
			if e := vs[i].MantExp(nil); e != int(o.Exp) {
				c.Fail(keyOf(hs, st, oi), fmt.Sprintf("variable %s: MantExp(nil) = %d, BitsExp exponent %d", varNames[i], e, o.Exp))
				return
			}
		}
	}
	for i := 0; i < nVars; i++ {
		for j := i + 1; j < nVars; j++ {
			a, b := after[i], after[j]
			if a.Form == fFinite && b.Form == fFinite && a.Neg == b.Neg && a.Val().Equal(b.Val()) {
				if a.Exp != b.Exp || vs[i].Cmp(vs[j]) != 0 || vs[i].Text('e', -1) != vs[j].Text('e', -1) {
					c.Fail(keyOf(hs, st, oi), fmt.Sprintf("numerically equal variables differ in representation: %s vs %s (Cmp=%d)", a, b, vs[i].Cmp(vs[j])))
					return
				}
			}
		}
	}
}

func sameValueAttrs(a, b Obs) bool {
	if a.Form != b.Form || a.Neg != b.Neg || a.Prec != b.Prec || a.Mode != b.Mode || a.Acc != b.Acc {
		return false
	}
	if a.Form == fFinite {
		return a.Exp == b.Exp && a.Val().Equal(b.Val())
	}
	return true
}

// C09: attribute model + operands untouched.
func judgeAttrs(c *Ctx, hs *histSpace, st hstate, oi int, before []Obs, vs []*Dec, after []Obs, pv interface{}, isNaN bool) {
	o := &hs.ops[oi]
	written := o.Dst
	for i := 0; i < nVars; i++ {
		if i == written {
			continue
		}
		if !sameValueAttrs(before[i], after[i]) {
			c.Fail(keyOf(hs, st, oi), fmt.Sprintf("variable %s is not the receiver but changed: %s -> %s", varNames[i], before[i], after[i]))
			return
		}
	}
	if pv != nil {
		return // value/attributes of the receiver are undefined after a panic
	}
	c.NonTrivial()
	zb, za := before[written], after[written]
	// mode
	wantMode := zb.Mode
	switch {
	case o.ModeSet >= 0:
		wantMode = uint8(o.ModeSet)
	case o.CopiesAttrsFrom >= 0:
		wantMode = before[o.Srcs[o.CopiesAttrsFrom]].Mode
	case o.PrecRule == prFree && strings.Contains(o.Name, "GobDecode") && zb.Prec == 0:
		wantMode = za.Mode // payload-defined
	}
	if za.Mode != wantMode {
		c.Fail(keyOf(hs, st, oi), fmt.Sprintf("rounding mode of %s changed from %s to %s", varNames[written], modeName(zb.Mode), modeName(za.Mode)))
		return
	}
	// precision
	wantPrec := zb.Prec
	check := true
	switch {
	case o.CopiesAttrsFrom >= 0:
		wantPrec = before[o.Srcs[o.CopiesAttrsFrom]].Prec
	case o.PrecRule == prExplicit:
		wantPrec = o.PrecConst
	case zb.Prec != 0:
		// sticky
	case o.PrecRule == prKeep:
	case o.PrecRule == prMaxSrcs:
		wantPrec = 0
		for _, s := range o.Srcs {
			p := before[s].Prec
			if s == written {
				p = zb.Prec
			}
			if p > wantPrec {
				wantPrec = p
			}
		}
		if strings.Contains(o.Name, ".Sqrt(") || strings.Contains(o.Name, ".Set(") || strings.Contains(o.Name, ".Neg(") || strings.Contains(o.Name, ".Abs(") {
			wantPrec = before[o.Srcs[0]].Prec
		}
	case o.PrecRule == prConst:
		wantPrec = o.PrecConst
		if strings.Contains(o.Name, "SetString") && za.Form == fInf {
			wantPrec = zb.Prec // "Inf" literals only set the form
			check = za.Prec == 0 || za.Prec == 34
			if check {
				wantPrec = za.Prec
			}
		}
	case o.PrecRule == prFree:
		check = false
	}
	if check && za.Prec != wantPrec {
		c.Fail(keyOf(hs, st, oi), fmt.Sprintf("precision of %s: was %d, now %d, documented %d", varNames[written], zb.Prec, za.Prec, wantPrec))
		return
	}
	if c.WantSample() {
		c.Sample(keyOf(hs, st, oi))
	}
}

// C10: differential — fresh receiver with the same (prec, mode) and deep-copied, distinct operands.
func judgeDiff(c *Ctx, hs *histSpace, st hstate, oi int, before []Obs, vs []*Dec, after []Obs, pv interface{}, isNaN bool) {
	o := &hs.ops[oi]
	if o.NoDiff {
		return
	}
	zb := before[o.Dst]
	var zr *Dec
	if o.RecvIsInput {
		zr = opndFromObs(zb).BuildRaw()
	} else {
		zr = buildPre(preFresh, zb.Prec, zb.Mode)
	}
	srcs := make([]*Dec, len(o.Srcs))
	for i, s := range o.Srcs {
		srcs[i] = opndFromObs(before[s]).BuildRaw()
	}
	if o.Out >= 0 {
		// MantExp(out): receiver of the write is the out-parameter; the source is Srcs[0]
	}
	rpv, rNaN := protect(func() { o.Do(zr, srcs) })
	c.NonTrivial()
	key := keyOf(hs, st, oi)
	if (pv != nil) != (rpv != nil) || isNaN != rNaN {
		c.Fail(key, fmt.Sprintf("aliased/dirty execution panic=%v, fresh/unaliased execution panic=%v", pv, rpv))
		return
	}
	if pv != nil {
		return
	}
	got, ref := after[o.Dst], Observe(zr)
	if o.CopiesAttrsFrom >= 0 || strings.Contains(o.Name, "GobDecode(") {
		// the accuracy is copied from the source, which the deep copy cannot reproduce
		ref.Acc = got.Acc
	}
	if !sameValueAttrs(got, ref) {
		c.Fail(key, fmt.Sprintf("result depends on aliasing / previous receiver contents: got %s, with a fresh receiver and distinct operands %s", got, ref))
	}
}

// BuildRaw materializes an observation-derived operand exactly (value, sign, prec, mode; acc Exact),
// also for states that Build cannot express (precision-0 specials).
func (a *Opnd) BuildRaw() *Dec {
	if a.Form == fFinite && a.Prec == 0 {
		a.Prec = uint32(len(a.Words) * DW)
	}
	return a.Build()
}

func histLayers(judge histJudge, tier string, what string) []Layer {
	thorough := tier == "thorough"
	maxLevel := 2 // expand states of levels 0..2 => histories of depth 3
	if !thorough && strings.Contains(what, "C10") {
		maxLevel = 1 // the differential judge re-executes every transition; quick explores depth 2 (the product layer X1 carries the breadth)
	}
	reduced := !thorough
	var hs *histSpace
	get := func() *histSpace {
		if hs == nil {
			hs = getHistSpace(reduced, maxLevel)
		}
		return hs
	}
	h := get()
	var layers []Layer
	const chunk = 16
	for L := 0; L <= maxLevel; L++ {
		L := L
		n := len(h.levels[L])
		layers = append(layers, Layer{
			Name:   fmt.Sprintf("E2-depth%d", L+1),
			Units:  (n + chunk - 1) / chunk,
			Bounds: fmt.Sprintf("%s: every one of %d operations applied in each of the %d distinct states first reached by %d operation(s) from %d seed states (3 variables; state identity = form, sign, digits, exponent, precision, mode, accuracy, len, cap per variable)", what, len(h.ops), n, L, nSeeds),
			Run: func(c *Ctx, u int) {
				hs := get()
				for i := u * chunk; i < (u+1)*chunk && i < len(hs.levels[L]); i++ {
					st := hs.levels[L][i]
					for oi := range hs.ops {
						if c.Skip() {
							continue
						}
						vs := buildHist(hs.ops, st)
						before := make([]Obs, nVars)
						for k, v := range vs {
							before[k] = Observe(v)
						}
						pv, isNaN := applyOp(&hs.ops[oi], vs)
						if pv == errSkipped {
							c.Count("transitions_not_taken_additive_exponent_gap", 1)
							continue
						}
						after := make([]Obs, nVars)
						for k, v := range vs {
							after[k] = Observe(v)
						}
						c.Outcome(fnvStr(0, stateKey(vs)))
						if pv != nil && !isNaN {
							c.Fail(keyOf(hs, st, oi), fmt.Sprintf("panic that is not ErrNaN: %v", pv))
							continue
						}
						if hs.ops[oi].ReadOnly {
							changed := false
							for k := range after {
								if !sameObsFull(before[k], after[k]) {
									c.Fail(keyOf(hs, st, oi), fmt.Sprintf("a read-only operation changed variable %s: %s -> %s", varNames[k], before[k], after[k]))
									changed = true
									break
								}
							}
							if changed {
								continue
							}
						}
						judge(c, hs, st, oi, before, vs, after, pv, isNaN)
					}
					if c.Done() {
						return
					}
				}
			},
		})
	}
	return layers
}

// histStats reports the explicit-state search itself: distinct states per BFS level.
func histStats(what string) func(tier string) map[string]interface{} {
	return func(tier string) map[string]interface{} {
		maxLevel := 2
		if tier != "thorough" && strings.Contains(what, "C10") {
			maxLevel = 1
		}
		hs := getHistSpace(tier != "thorough", maxLevel)
		var sizes []int
		total := 0
		for _, l := range hs.levels {
			sizes = append(sizes, len(l))
			total += len(l)
		}
		return map[string]interface{}{
			"states":                        total,
			"bfs_distinct_states_per_level": sizes,
			"operations_in_menu":            len(hs.ops),
			"states_explanation":            "states = distinct variable-set states (hashed) that were expanded by every operation of the menu; transitions = operation executions on the real objects (each replays the shortest history on fresh objects); successor states of the last level are hashed per worker only (distinct_outcomes_*_bound)",
		}
	}
}

func init() {
	register(&Property{
		ID: "C08", Level: "model_checking",
		Rule: "states = distinct variable-set states (hash of form, sign, digits, exponent, precision, mode, accuracy, len, cap of each of 3 variables); transitions = one public operation executed on the real objects after replaying the shortest history; a transition is non-trivial when it leaves a finite value whose representation invariant is evaluated",
		Assumptions: []string{
			"history depth 3 over the stated operation menu (≈400 instantiated calls) from 5 seed states",
			"raw SetBitsExp is used within its contract (fresh slices or the receiver's own BitsExp slice)",
		},
		Layers: func(tier string) []Layer {
			return append(histLayers(judgeCanonical, tier, "canonical form (C08)"), canonicalAfterParseLayer(tier))
		},
		Stats: histStats("C08"),
	})
	register(&Property{
		ID: "C09", Level: "model_checking",
		Rule: "same state space as C08; a transition is non-trivial when it completes without panic so that the precision/mode rule of the operation and the immutability of every non-receiver variable are evaluated",
		Assumptions: []string{
			"documented precision-0 rules as encoded in mc/hist.go (arith: max operand precision; Sqrt/Set/Neg/Abs: x's; integer setters 34 or digit count; strings 34; SetFloat64 17; SetFloat ⌈bits·log10 2⌉; copiers: Copy, SetMantExp, MantExp out-parameter, GobDecode into precision 0)",
			"SetBitsExp on a precision-0 receiver has no documented rule: any precision >= MinPrec is accepted",
			"transient write-then-restore of an operand is additionally covered by the write-protection layer (mc/wprot.go)",
			"layers S*/H1/H2/H5/L*/P1/P4/P5 re-run the argument catalogues of C14/C15/C01/C04 judging only the receiver's precision and mode after the call",
		},
		Layers: func(tier string) []Layer {
			ls := append(histLayers(judgeAttrs, tier, "attribute model and operand immutability (C09)"), wprotLayers(tier, "C09")...)
			// the argument catalogues of the setters / conversions / arithmetic, judged on (precision, mode) only
			ls = append(ls, setterLayers(judgeAttr, tier)...)
			for _, l := range floatLayers(tier) {
				if strings.HasPrefix(l.Name, "H1-") || strings.HasPrefix(l.Name, "H2-") || strings.HasPrefix(l.Name, "H5-") {
					ls = append(ls, l)
				}
			}
			for _, l := range specialLayers("quick") {
				if strings.HasPrefix(l.Name, "P1-") || strings.HasPrefix(l.Name, "P4-") || strings.HasPrefix(l.Name, "P5-") {
					ls = append(ls, l) // special values, range ends, extreme precision attributes: attribute judge (special.go)
				}
			}
			for _, l := range arithLayers(judgeAttr, "quick") { // the attribute judge does not need the thorough operand sets
				if !strings.HasPrefix(l.Name, "L1-") {
					ls = append(ls, l)
				}
			}
			return ls
		},
		Stats: histStats("C09"),
	})
	register(&Property{
		ID: "C10", Level: "model_checking",
		Rule:        "a case is (operation, aliasing partition, receiver pre-state, operands) or a history transition; oracle: the same operation executed with a fresh receiver of equal precision/mode and deep-copied distinct operands must give the identical observation; every case is non-trivial",
		Assumptions: []string{"differential oracle + exact model on the product layers", "history depth 3 (E2) from 5 seed states"},
		Layers: func(tier string) []Layer {
			// setters on every receiver pre-state: the result must equal the model's (and hence the fresh receiver's)
			setterPres = nil
			for p := 0; p < numPre; p++ {
				setterPres = append(setterPres, p)
			}
			ls := append(aliasLayers(tier), setterLayers(judgeValue, tier)...)
			return append(ls, histLayers(judgeDiff, tier, "aliasing/dirty-receiver differential (C10)")...)
		},
		Stats: histStats("C10"),
	})
}
