package main

// C07 part 1: every assembly kernel == its portable twin == the mathematical
// definition, for all lengths 0..70, carry chains starting and stopping at every
// index, all shift counts, in-place and overlapping destinations, with guard
// words around the destination.

import (
	"fmt"
	"math/bits"

	"github.com/db47h/decimal"
)

const sentinel = uint64(0xDEADBEEFCAFEF00D)

// arena lays out z and x (and y) according to layout and returns fresh slices.
//
//	0: z, x, y disjoint      1: z == x (in place)      2: z == y (in place)
//	10+k: z = buf[k:k+n], x = buf[0:n]  (destination above the source; shl)
//	20+k: z = buf[0:n],   x = buf[k:k+n] (destination below the source; shr)
type arena struct {
	buf     []Word
	z, x, y []Word
	zoff    int
	n       int
}

func mkArena(n, layout int, x, y, zinit []uint64) *arena {
	a := &arena{n: n}
	const g = 4
	switch {
	case layout == 0:
		a.buf = make([]Word, 3*n+4*g)
		a.zoff = g
		a.z = a.buf[g : g+n : g+n]
		a.x = a.buf[2*g+n : 2*g+2*n : 2*g+2*n]
		a.y = a.buf[3*g+2*n : 3*g+3*n : 3*g+3*n]
	case layout == 1:
		a.buf = make([]Word, 2*n+3*g)
		a.zoff = g
		a.z = a.buf[g : g+n : g+n]
		a.x = a.z
		a.y = a.buf[2*g+n : 2*g+2*n : 2*g+2*n]
	case layout == 2:
		a.buf = make([]Word, 2*n+3*g)
		a.zoff = g
		a.z = a.buf[g : g+n : g+n]
		a.y = a.z
		a.x = a.buf[2*g+n : 2*g+2*n : 2*g+2*n]
	case layout >= 10 && layout < 20:
		k := layout - 10
		a.buf = make([]Word, n+k+2*g)
		a.zoff = g + k
		a.x = a.buf[g : g+n : g+n]
		a.z = a.buf[g+k : g+k+n : g+k+n]
	case layout >= 20:
		k := layout - 20
		a.buf = make([]Word, n+k+2*g)
		a.zoff = g
		a.z = a.buf[g : g+n : g+n]
		a.x = a.buf[g+k : g+k+n : g+k+n]
	}
	for i := range a.buf {
		a.buf[i] = Word(sentinel)
	}
	if zinit != nil {
		for i, w := range zinit {
			a.z[i] = Word(w)
		}
	}
	if a.y != nil {
		for i := range y {
			a.y[i] = Word(y[i])
		}
	}
	for i := range x {
		a.x[i] = Word(x[i])
	}
	return a
}

// guardsOK checks that nothing outside z (and, for overlapping layouts, outside
// the union of z and x, whose x part may legitimately be overwritten only where
// it coincides with z) was written.
func (a *arena) guardsOK(layout int, x []uint64) string {
	for i, w := range a.buf {
		inZ := i >= a.zoff && i < a.zoff+a.n
		if inZ {
			continue
		}
		want := Word(sentinel)
		// positions belonging to x (not overlapping z) must still hold x
		switch {
		case layout >= 10 && layout < 20:
			if i >= 4 && i < 4+a.n {
				want = Word(x[i-4])
			}
		case layout >= 20:
			k := layout - 20
			if i >= 4+k && i < 4+k+a.n {
				want = Word(x[i-4-k])
			}
		default:
			continue // disjoint operands are compared by the caller
		}
		if w != want {
			return fmt.Sprintf("word at buffer index %d (outside the destination) changed to %d", i, uint64(w))
		}
	}
	return ""
}

func (a *arena) sentinelsOK() string {
	// for layouts 0..2: every buffer word that is not part of z, x, y must be the sentinel
	in := func(s []Word, p *Word) bool {
		for i := range s {
			if &s[i] == p {
				return true
			}
		}
		return false
	}
	for i := range a.buf {
		p := &a.buf[i]
		if in(a.z, p) || in(a.x, p) || (a.y != nil && in(a.y, p)) {
			continue
		}
		if a.buf[i] != Word(sentinel) {
			return fmt.Sprintf("guard word at buffer index %d overwritten with %d", i, uint64(a.buf[i]))
		}
	}
	return ""
}

type kdef struct {
	name    string
	layouts []int
	usesY   bool
	usesZ   bool // z is also an input (addMul)
	// call the implementation: g selects the portable twin
	call func(g bool, z, x, y []Word, w1, w2 Word, s uint) Word
	// definition on plain integers
	def func(z, x, y []uint64, w1, w2 uint64, s uint) ([]uint64, uint64)
}

func p10u(n uint) uint64 {
	r := uint64(1)
	for i := uint(0); i < n; i++ {
		r *= 10
	}
	return r
}

func mulAddDef(x, y, c uint64) (hi, lo uint64) { // x*y + c in base B, returns (q, r) of division by B
	h, l := bits.Mul64(x, y)
	var cc uint64
	l, cc = bits.Add64(l, c, 0)
	h += cc
	return bits.Div64(h, l, BW)
}

var kernelDefs = []kdef{
	{name: "add10VV", layouts: []int{0, 1, 2}, usesY: true,
		call: func(g bool, z, x, y []Word, w1, w2 Word, s uint) Word {
			if g {
				return decimal.VerifAdd10VVg(z, x, y)
			}
			return decimal.VerifAdd10VV(z, x, y)
		},
		def: func(z, x, y []uint64, w1, w2 uint64, s uint) ([]uint64, uint64) {
			out := make([]uint64, len(x))
			var c uint64
			for i := range x {
				t := x[i] + c
				c = 0
				if t >= BW {
					t -= BW
					c = 1
				}
				if t >= BW-y[i] && y[i] != 0 {
					t -= BW - y[i]
					c = 1
				} else {
					t += y[i]
				}
				out[i] = t
			}
			return out, c
		}},
	{name: "sub10VV", layouts: []int{0, 1, 2}, usesY: true,
		call: func(g bool, z, x, y []Word, w1, w2 Word, s uint) Word {
			if g {
				return decimal.VerifSub10VVg(z, x, y)
			}
			return decimal.VerifSub10VV(z, x, y)
		},
		def: func(z, x, y []uint64, w1, w2 uint64, s uint) ([]uint64, uint64) {
			out := make([]uint64, len(x))
			var b uint64
			for i := range x {
				sub := y[i] + b // <= B
				b = 0
				if x[i] >= sub {
					out[i] = x[i] - sub
				} else {
					out[i] = x[i] + (BW - sub)
					b = 1
				}
			}
			return out, b
		}},
	{name: "add10VW", layouts: []int{0, 1},
		call: func(g bool, z, x, y []Word, w1, w2 Word, s uint) Word {
			if g {
				return decimal.VerifAdd10VWg(z, x, w1)
			}
			return decimal.VerifAdd10VW(z, x, w1)
		},
		def: func(z, x, y []uint64, w1, w2 uint64, s uint) ([]uint64, uint64) {
			out := make([]uint64, len(x))
			c := w1
			for i := range x {
				// x[i] + c, c < B
				if x[i] >= BW-c && c != 0 {
					out[i] = x[i] - (BW - c)
					c = 1
				} else {
					out[i] = x[i] + c
					c = 0
				}
			}
			return out, c
		}},
	{name: "sub10VW", layouts: []int{0, 1},
		call: func(g bool, z, x, y []Word, w1, w2 Word, s uint) Word {
			if g {
				return decimal.VerifSub10VWg(z, x, w1)
			}
			return decimal.VerifSub10VW(z, x, w1)
		},
		def: func(z, x, y []uint64, w1, w2 uint64, s uint) ([]uint64, uint64) {
			out := make([]uint64, len(x))
			b := w1
			for i := range x {
				if x[i] >= b {
					out[i] = x[i] - b
					b = 0
				} else {
					out[i] = x[i] + (BW - b)
					b = 1
				}
			}
			return out, b
		}},
	{name: "shl10VU", layouts: []int{0, 1, 11, 12, 15},
		call: func(g bool, z, x, y []Word, w1, w2 Word, s uint) Word {
			if g {
				return decimal.VerifShl10VUg(z, x, s)
			}
			return decimal.VerifShl10VU(z, x, s)
		},
		def: func(z, x, y []uint64, w1, w2 uint64, s uint) ([]uint64, uint64) {
			out := make([]uint64, len(x))
			if s == 0 || len(x) == 0 {
				copy(out, x)
				return out, 0
			}
			d, m := p10u(19-s), p10u(s)
			for i := range x {
				out[i] = (x[i] % d) * m
				if i > 0 {
					out[i] += x[i-1] / d
				}
			}
			return out, x[len(x)-1] / d
		}},
	{name: "shr10VU", layouts: []int{0, 1, 21, 22, 25},
		call: func(g bool, z, x, y []Word, w1, w2 Word, s uint) Word {
			if g {
				return decimal.VerifShr10VUg(z, x, s)
			}
			return decimal.VerifShr10VU(z, x, s)
		},
		def: func(z, x, y []uint64, w1, w2 uint64, s uint) ([]uint64, uint64) {
			out := make([]uint64, len(x))
			if s == 0 || len(x) == 0 {
				copy(out, x)
				return out, 0
			}
			d, m := p10u(s), p10u(19-s)
			for i := range x {
				out[i] = x[i] / d
				if i+1 < len(x) {
					out[i] += (x[i+1] % d) * m
				}
			}
			return out, (x[0] % d) * m
		}},
	{name: "mulAdd10VWW", layouts: []int{0, 1},
		call: func(g bool, z, x, y []Word, w1, w2 Word, s uint) Word {
			if g {
				return decimal.VerifMulAdd10VWWg(z, x, w1, w2)
			}
			return decimal.VerifMulAdd10VWW(z, x, w1, w2)
		},
		def: func(z, x, y []uint64, w1, w2 uint64, s uint) ([]uint64, uint64) {
			out := make([]uint64, len(x))
			c := w2
			for i := range x {
				c, out[i] = mulAddDef(x[i], w1, c)
			}
			return out, c
		}},
	{name: "addMul10VVW", layouts: []int{0}, usesZ: true,
		call: func(g bool, z, x, y []Word, w1, w2 Word, s uint) Word {
			if g {
				return decimal.VerifAddMul10VVWg(z, x, w1)
			}
			return decimal.VerifAddMul10VVW(z, x, w1)
		},
		def: func(z, x, y []uint64, w1, w2 uint64, s uint) ([]uint64, uint64) {
			out := make([]uint64, len(x))
			var c uint64
			for i := range x {
				// x[i]*w1 + z[i] + c
				h, l := bits.Mul64(x[i], w1)
				var cc uint64
				l, cc = bits.Add64(l, z[i], 0)
				h += cc
				l, cc = bits.Add64(l, c, 0)
				h += cc
				c, out[i] = bits.Div64(h, l, BW)
			}
			return out, c
		}},
	{name: "div10VWW", layouts: []int{0, 1},
		call: func(g bool, z, x, y []Word, w1, w2 Word, s uint) Word {
			if g {
				return decimal.VerifDiv10VWWg(z, x, w1, w2)
			}
			return decimal.VerifDiv10VWW(z, x, w1, w2)
		},
		def: func(z, x, y []uint64, w1, w2 uint64, s uint) ([]uint64, uint64) {
			out := make([]uint64, len(x))
			r := w2 // xn < y
			for i := len(x) - 1; i >= 0; i-- {
				// (r*B + x[i]) / y
				h, l := bits.Mul64(r, BW)
				var cc uint64
				l, cc = bits.Add64(l, x[i], 0)
				h += cc
				out[i], r = bits.Div64(h, l, w1)
			}
			return out, r
		}},
	{name: "divWVW", layouts: []int{0, 1},
		call: func(g bool, z, x, y []Word, w1, w2 Word, s uint) Word {
			if g {
				return decimal.VerifDivWVWg(z, w2, x, w1)
			}
			return decimal.VerifDivWVW(z, w2, x, w1)
		},
		def: func(z, x, y []uint64, w1, w2 uint64, s uint) ([]uint64, uint64) {
			out := make([]uint64, len(x))
			r := w2
			for i := len(x) - 1; i >= 0; i-- {
				out[i], r = bits.Div64(r, x[i], w1)
			}
			return out, r
		}},
}

// vecPatterns: uniform word with one exception at every position (and none).
func vecPatterns(n int, S []uint64) [][]uint64 {
	if n == 0 {
		return [][]uint64{{}}
	}
	var out [][]uint64
	for _, u := range S {
		base := make([]uint64, n)
		for i := range base {
			base[i] = u
		}
		out = append(out, append([]uint64(nil), base...))
		for p := 0; p < n; p++ {
			for _, e := range S {
				if e == u {
					continue
				}
				v := append([]uint64(nil), base...)
				v[p] = e
				out = append(out, v)
			}
		}
	}
	return out
}

func yPatterns(n int) [][]uint64 {
	if n == 0 {
		return [][]uint64{{}}
	}
	var out [][]uint64
	for _, u := range S7 {
		v := make([]uint64, n)
		for i := range v {
			v[i] = u
		}
		out = append(out, v)
	}
	for _, b := range []uint64{1, BW - 1, BW / 2} {
		v := make([]uint64, n)
		v[0] = b
		out = append(out, v)
		w := make([]uint64, n)
		for i := range w {
			w[i] = BW - 1
		}
		w[n-1] = b
		out = append(out, w)
	}
	return out
}

func kernelCase(c *Ctx, k *kdef, n, layout int, x, y, zinit []uint64, w1, w2 uint64, s uint) {
	if c.Skip() {
		return
	}
	key := func() string {
		return fmt.Sprintf("%s n=%d layout=%d x=%s y=%s z0=%s w1=%d w2=%d s=%d", k.name, n, layout, wordsKey(x), wordsKey(y), wordsKey(zinit), w1, w2, s)
	}
	wantZ, wantC := k.def(zinit, x, y, w1, w2, s)
	c.NonTrivial()
	for _, g := range []bool{false, true} {
		a := mkArena(n, layout, x, y, zinit)
		var got Word
		pv, _ := protect(func() { got = k.call(g, a.z, a.x, a.y, Word(w1), Word(w2), s) })
		impl := "asm"
		if g {
			impl = "portable"
		}
		if pv != nil {
			c.Fail(key(), fmt.Sprintf("%s implementation panicked: %v", impl, pv))
			return
		}
		if uint64(got) != wantC || !eqWords(a.z, wantZ) {
			c.Fail(key(), fmt.Sprintf("%s implementation: got z=%s c=%d, definition z=%s c=%d", impl, wordsKey(fromWords(a.z)), uint64(got), wordsKey(wantZ), wantC))
			return
		}
		if layout <= 2 {
			if msg := a.sentinelsOK(); msg != "" {
				c.Fail(key(), impl+": "+msg)
				return
			}
			if layout != 1 && !eqWords(a.x, x) {
				c.Fail(key(), impl+": source x modified")
				return
			}
			if k.usesY && layout != 2 && !eqWords(a.y, y) {
				c.Fail(key(), impl+": source y modified")
				return
			}
		} else if msg := a.guardsOK(layout, x); msg != "" {
			c.Fail(key(), impl+": "+msg)
			return
		}
	}
	c.Outcome(fnv(uint64(n), wantC, firstOr0(wantZ), uint64(len(k.name))))
	if c.WantSample() {
		c.Sample(key())
	}
}

var scalarEdges []uint64

func init() {
	seen := map[uint64]bool{}
	add := func(v uint64) {
		if !seen[v] {
			seen[v] = true
			scalarEdges = append(scalarEdges, v)
		}
	}
	for i := uint(0); i <= 19; i++ {
		p := p10u(i)
		add(p)
		add(p - 1)
		add(p + 1)
	}
	for _, v := range []uint64{0, 2, 3, BW / 2, BW/2 - 1, BW/2 + 1, BW - 2, BW / 3, 1 << 63, 1<<63 - 1, 1<<63 + 1, 1<<64 - 1, 1<<64 - 2, 1 << 62, 1 << 32, 1<<32 - 1, 0xAAAAAAAAAAAAAAAA, 0x5555555555555555, 9223372036854775807, 7766279631452241919, 7766279631452241920, 7766279631452241921} {
		add(v)
	}
}

func kernelLayers(tier string) []Layer {
	thorough := tier == "thorough"
	maxN := 70
	var layers []Layer
	type unit struct {
		k *kdef
		n int
	}
	var units []unit
	for i := range kernelDefs {
		for n := 0; n <= maxN; n++ {
			units = append(units, unit{&kernelDefs[i], n})
		}
	}
	S := S7
	layers = append(layers, Layer{
		Name:   "K1-vector-kernels",
		Units:  len(units),
		Bounds: "10 vector kernels × lengths 0..70 × x = uniform S7 word with <=1 exception at every index × (y: 7 uniform + 6 carry-seed vectors | scalar operands from S9 | all shift counts 0..18) × layouts (disjoint, in place z==x, z==y, overlapping shifts by 1,2,5 words) ; asm == portable == definition, guard words intact",
		Run: func(c *Ctx, u int) {
			k, n := units[u].k, units[u].n
			xs := vecPatterns(n, S)
			if !thorough && n > 24 {
				// quick: exceptions at every index but only exception values {0, 1, B-1, B/2}
				xs = vecPatterns(n, []uint64{0, 1, BW - 1, BW / 2})
			}
			for _, layout := range k.layouts {
				switch k.name {
				case "add10VV", "sub10VV":
					for _, x := range xs {
						for _, y := range yPatterns(n) {
							kernelCase(c, k, n, layout, x, y, nil, 0, 0, 0)
						}
						if c.Done() {
							return
						}
					}
				case "add10VW", "sub10VW":
					for _, x := range xs {
						for _, w := range S9 {
							kernelCase(c, k, n, layout, x, nil, nil, w, 0, 0)
						}
						if c.Done() {
							return
						}
					}
				case "shl10VU", "shr10VU":
					if layout >= 10 && n == 0 {
						continue
					}
					for _, x := range xs {
						for s := uint(0); s <= 18; s++ {
							kernelCase(c, k, n, layout, x, nil, nil, 0, 0, s)
						}
						if c.Done() {
							return
						}
					}
				case "mulAdd10VWW":
					for _, x := range xs {
						for _, w := range S9 {
							for _, r := range []uint64{0, 1, BW - 1} {
								kernelCase(c, k, n, layout, x, nil, nil, w, r, 0)
							}
						}
						if c.Done() {
							return
						}
					}
				case "addMul10VVW":
					for _, x := range xs {
						for _, z0 := range yPatterns(n) {
							for _, w := range []uint64{0, 1, 2, BW - 1, BW / 2, BW/10 - 1} {
								kernelCase(c, k, n, layout, x, nil, z0, w, 0, 0)
							}
						}
						if c.Done() {
							return
						}
					}
				case "div10VWW":
					for _, x := range xs {
						for _, w := range S9 {
							if w == 0 {
								continue
							}
							for _, xn := range []uint64{0, w - 1, w / 2} {
								kernelCase(c, k, n, layout, x, nil, nil, w, xn, 0)
							}
						}
						if c.Done() {
							return
						}
					}
				case "divWVW":
					// binary kernel: words are arbitrary 64-bit values
					bx := vecPatterns(n, []uint64{0, 1, 1<<64 - 1, 1 << 63, BW, 0x5555555555555555})
					for _, x := range bx {
						for _, w := range []uint64{1, 2, 3, 10, BW, BW - 1, 1 << 63, 1<<64 - 1, 1<<63 + 1} {
							for _, xn := range []uint64{0, w - 1, w / 2} {
								kernelCase(c, k, n, layout, x, nil, nil, w, xn, 0)
							}
						}
						if c.Done() {
							return
						}
					}
				}
			}
		},
	})
	// K4: long vectors (block-copy / unrolled paths that only start at a few hundred words)
	{
		longN := []int{127, 128, 129, 255, 256, 257, 300, 511, 512, 513}
		if thorough {
			longN = append(longN, 1023, 1024, 1025, 2049, 4097)
		}
		type unit4 struct {
			k *kdef
			n int
		}
		var units4 []unit4
		for i := range kernelDefs {
			for _, n := range longN {
				units4 = append(units4, unit4{&kernelDefs[i], n})
			}
		}
		layers = append(layers, Layer{
			Name:   "K4-long-vectors",
			Units:  len(units4),
			Bounds: fmt.Sprintf("10 vector kernels × lengths %v × x = uniform word {0, B/2, B−1} with one exception {1, B−1, 0} at index {0, 1, 3, 4, n/2, n−2, n−1} × (y uniform / carry seed | scalars {1, B−1, B/2} | shifts {0, 1, 9, 18}) × all layouts", longN),
			Run: func(c *Ctx, u int) {
				k, n := units4[u].k, units4[u].n
				var xs [][]uint64
				for _, w := range []uint64{0, BW / 2, BW - 1} {
					for _, e := range []uint64{1, BW - 1, 0} {
						if e == w {
							continue
						}
						for _, p := range []int{0, 1, 3, 4, n / 2, n - 2, n - 1} {
							v := make([]uint64, n)
							for i := range v {
								v[i] = w
							}
							v[p] = e
							xs = append(xs, v)
						}
					}
				}
				uni := func(w uint64) []uint64 {
					v := make([]uint64, n)
					for i := range v {
						v[i] = w
					}
					return v
				}
				seed := uni(0)
				seed[0] = 1
				ys := [][]uint64{uni(0), uni(BW - 1), uni(BW / 2), seed}
				if k.name == "divWVW" {
					xs = xs[:0]
					for _, w := range []uint64{0, 1<<64 - 1, 1 << 63} {
						v := uni(w)
						v[n/2] = 0x5555555555555555
						xs = append(xs, v)
					}
				}
				for _, layout := range k.layouts {
					for _, x := range xs {
						if c.Done() {
							return
						}
						switch k.name {
						case "add10VV", "sub10VV":
							for _, y := range ys {
								kernelCase(c, k, n, layout, x, y, nil, 0, 0, 0)
							}
						case "add10VW", "sub10VW":
							for _, w := range []uint64{0, 1, BW - 1, BW / 2} {
								kernelCase(c, k, n, layout, x, nil, nil, w, 0, 0)
							}
						case "shl10VU", "shr10VU":
							for _, sft := range []uint{0, 1, 9, 18} {
								kernelCase(c, k, n, layout, x, nil, nil, 0, 0, sft)
							}
						case "mulAdd10VWW":
							for _, w := range []uint64{1, BW - 1, BW / 2} {
								kernelCase(c, k, n, layout, x, nil, nil, w, BW-1, 0)
							}
						case "addMul10VVW":
							for _, w := range []uint64{1, BW - 1} {
								kernelCase(c, k, n, layout, x, nil, ys[1], w, 0, 0)
								kernelCase(c, k, n, layout, x, nil, ys[3], w, 0, 0)
							}
						case "div10VWW":
							for _, w := range []uint64{1, BW - 1, BW / 2} {
								kernelCase(c, k, n, layout, x, nil, nil, w, w-1, 0)
							}
						case "divWVW":
							for _, w := range []uint64{3, BW, 1<<64 - 1} {
								kernelCase(c, k, n, layout, x, nil, nil, w, w/2, 0)
							}
						}
					}
				}
			},
		})
	}
	// K3: words at the *binary* boundaries of the 64-bit registers that hold the decimal words
	// (2·10^19 > 2^64: sums wrap the register; 2^63: sign-bit tricks; 2^32, √B: half-word products)
	{
		Sb := []uint64{0, 1, 1<<63 - 1, 1 << 63, 1<<63 + 1, (1<<64 - 1) - BW, (1<<64 - 1) - BW + 1, (1<<64 - 1) - BW + 2, BW / 2, BW - 2, BW - 1, 1<<32 - 1, 1 << 32, 3162277660, 3162277661}
		type unit3 struct {
			k *kdef
			n int
		}
		var units3 []unit3
		for i := range kernelDefs {
			if kernelDefs[i].name == "divWVW" {
				continue // binary kernel, covered over the full 64-bit range by K1
			}
			for n := 1; n <= 12; n++ {
				units3 = append(units3, unit3{&kernelDefs[i], n})
			}
		}
		layers = append(layers, Layer{
			Name:   "K3-binary-boundary-words",
			Units:  len(units3),
			Bounds: fmt.Sprintf("9 decimal vector kernels × lengths 1..12 × a pair (a,b) from %d² words at the binary boundaries (2^63−1, 2^63, 2^63+1, 2^64−B−1.., B/2, B−2, B−1, 2^32−1, 2^32, ⌊√B⌋, ⌈√B⌉, 0, 1) placed at every index (a in x; b in y, the scalar, or the initial z) × carry context {none, generated at the previous word, chained from word 0} × filler {0, B−1} × layouts", len(Sb)),
			Run: func(c *Ctx, u int) {
				k, n := units3[u].k, units3[u].n
				for _, layout := range k.layouts {
					for i := 0; i < n; i++ {
						for _, a := range Sb {
							if c.Done() {
								return
							}
							for _, b := range Sb {
								for ctx := 0; ctx < 3; ctx++ {
									for _, fill := range []uint64{0, BW - 1} {
										x := make([]uint64, n)
										y := make([]uint64, n)
										for j := range x {
											x[j] = fill
										}
										x[i], y[i] = a, b
										switch ctx {
										case 1:
											if i == 0 {
												continue
											}
											x[i-1], y[i-1] = BW-1, 1
										case 2:
											if i < 2 {
												continue
											}
											x[0], y[0] = BW-1, 1
											for j := 1; j < i; j++ {
												x[j], y[j] = BW-1, 0
											}
										}
										switch k.name {
										case "add10VV":
											kernelCase(c, k, n, layout, x, y, nil, 0, 0, 0)
										case "sub10VV":
											// keep x >= y locally is not required: the kernel returns the borrow
											kernelCase(c, k, n, layout, x, y, nil, 0, 0, 0)
										case "add10VW", "sub10VW":
											if ctx == 0 {
												kernelCase(c, k, n, layout, x, nil, nil, b, 0, 0)
											}
										case "shl10VU", "shr10VU":
											if ctx == 0 && fill == 0 {
												kernelCase(c, k, n, layout, x, nil, nil, 0, 0, uint(b%19))
											}
										case "mulAdd10VWW":
											if ctx == 0 {
												kernelCase(c, k, n, layout, x, nil, nil, b, a, 0)
												kernelCase(c, k, n, layout, x, nil, nil, b, BW-1, 0)
											}
										case "addMul10VVW":
											// z += x·w: initial z carries b at the same index
											for _, w := range []uint64{1, BW - 1, 3162277661, 1 << 32} {
												kernelCase(c, k, n, layout, x, nil, y, w, 0, 0)
											}
										case "div10VWW":
											if ctx == 0 && b != 0 {
												kernelCase(c, k, n, layout, x, nil, nil, b, b-1, 0)
												kernelCase(c, k, n, layout, x, nil, nil, b, 0, 0)
											}
										}
									}
								}
							}
						}
					}
				}
			},
		})
	}
	// scalar kernels
	layers = append(layers, Layer{
		Name:   "K2-scalar-kernels",
		Units:  len(scalarEdges),
		Bounds: fmt.Sprintf("mul10WW(x,y), div10WW(x1,x0,y) with x1<y, div10W(n1,n0) with n1<B over %d edge values each (powers of ten ±1, B/2±1, B−1, values >= 2^63 for the sign-bit trick, low halves over the full 64-bit range)", len(scalarEdges)),
		Run: func(c *Ctx, u int) {
			a := scalarEdges[u]
			for _, b := range scalarEdges {
				// mul10WW: both < B
				if a < BW && b < BW {
					if !c.Skip() {
						h, l := bits.Mul64(a, b)
						wq, wr := bits.Div64(h, l, BW)
						q1, r1 := decimal.VerifMul10WW(Word(a), Word(b))
						q2, r2 := decimal.VerifMul10WWg(Word(a), Word(b))
						c.NonTrivial()
						if uint64(q1) != wq || uint64(r1) != wr || uint64(q2) != wq || uint64(r2) != wr {
							c.Fail(fmt.Sprintf("mul10WW x=%d y=%d", a, b), fmt.Sprintf("asm (%d,%d) portable (%d,%d) definition (%d,%d)", q1, r1, q2, r2, wq, wr))
						}
					}
				}
				// div10W: n1 < B, n0 any
				if a < BW {
					if !c.Skip() {
						wq, wr := bits.Div64(a, b, BW)
						q1, r1 := decimal.VerifDiv10W(Word(a), Word(b))
						q2, r2 := decimal.VerifDiv10Wg(Word(a), Word(b))
						c.NonTrivial()
						if uint64(q1) != wq || uint64(r1) != wr || uint64(q2) != wq || uint64(r2) != wr {
							c.Fail(fmt.Sprintf("div10W n1=%d n0=%d", a, b), fmt.Sprintf("asm (%d,%d) portable (%d,%d) definition (%d,%d)", q1, r1, q2, r2, wq, wr))
						}
					}
				}
				// div10WW: x1 < y < B? (y is a decimal word or any divisor < B), x0 < B
				for _, y := range scalarEdges {
					if y == 0 || y >= BW || a >= y || b >= BW {
						continue
					}
					if c.Skip() {
						continue
					}
					h, l := bits.Mul64(a, BW)
					var cc uint64
					l, cc = bits.Add64(l, b, 0)
					h += cc
					wq, wr := bits.Div64(h, l, y)
					q1, r1 := decimal.VerifDiv10WW(Word(a), Word(b), Word(y))
					q2, r2 := decimal.VerifDiv10WWg(Word(a), Word(b), Word(y))
					c.NonTrivial()
					if uint64(q1) != wq || uint64(r1) != wr || uint64(q2) != wq || uint64(r2) != wr {
						c.Fail(fmt.Sprintf("div10WW x1=%d x0=%d y=%d", a, b, y), fmt.Sprintf("asm (%d,%d) portable (%d,%d) definition (%d,%d)", q1, r1, q2, r2, wq, wr))
					}
				}
			}
		},
	})
	return layers
}

func init() {
	register(&Property{
		ID: "C07", Level: "model_checking",
		Rule: "a case is (kernel, length, input vectors/scalars, shift, destination layout); each case runs the selected (assembly) implementation, the portable twin and the definition; all cases distinct by construction and non-trivial (every one compares three implementations)",
		Assumptions: []string{
			"vector inputs are uniform edge words with at most one exception at every index (carry/borrow chains start and stop at every position); scalar kernels over an edge-value set",
			"the definition is written with math/bits 128-bit primitives (trusted)",
			"whole-library equivalence across build tags is checked by scripts/transcripts.sh (digest comparison of an identical exhaustive enumeration under 4 tag sets), run as part of this check",
		},
		Layers: kernelLayers,
	})
}
