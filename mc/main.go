package main

import (
	"fmt"
	"os"
	"sort"
	"strconv"
)

func usage() {
	fmt.Fprintln(os.Stderr, "usage: check <Cnn> [--tier quick|thorough] [--replay file] | check list")
	os.Exit(2)
}

func main() {
	if len(os.Args) < 2 {
		usage()
	}
	id := os.Args[1]
	if id == "list" {
		var ids []string
		for k := range registry {
			ids = append(ids, k)
		}
		sort.Strings(ids)
		for _, k := range ids {
			fmt.Println(k)
		}
		return
	}
	if fn, ok := specials[id]; ok {
		os.Exit(fn(os.Args[2:]))
	}
	p, ok := registry[id]
	if !ok {
		fmt.Fprintln(os.Stderr, "unknown property", id)
		os.Exit(2)
	}
	tier := os.Getenv("VERIF_TIER")
	if tier == "" {
		tier = "quick"
	}
	worker, workers := -1, 0
	replay, journal := "", ""
	for i := 2; i < len(os.Args); i++ {
		switch os.Args[i] {
		case "--tier":
			i++
			tier = os.Args[i]
		case "--worker":
			i++
			worker, _ = strconv.Atoi(os.Args[i])
		case "--workers":
			i++
			workers, _ = strconv.Atoi(os.Args[i])
		case "--replay":
			i++
			replay = os.Args[i]
		case "--journal":
			i++
			journal = os.Args[i]
		default:
			usage()
		}
	}
	if tier != "quick" && tier != "thorough" {
		usage()
	}
	selfCheck()
	switch {
	case replay != "":
		os.Exit(runReplay(p, replay))
	case worker >= 0:
		runWorker(p, tier, worker, workers, journal)
	default:
		os.Exit(runParent(p, tier))
	}
}

// specials are sub-commands that are not sharded properties (transcripts, schedulers).
var specials = map[string]func(args []string) int{}
