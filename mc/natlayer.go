package main

// C06: dec.mul / dec.sqr / dec.div are exact at every size and under every
// assignment of the tuning thresholds. Driven through the verif hook, under
// the adversarial scratch pool; reference = schoolbook arithmetic on base-10^19
// words written with math/bits (self-checked against math/big).

import (
	"fmt"
	"math/big"
	"math/bits"
	"os"

	"github.com/db47h/decimal"
)

func refNorm(x []uint64) []uint64 {
	n := len(x)
	for n > 0 && x[n-1] == 0 {
		n--
	}
	return x[:n]
}

func refMul(x, y []uint64) []uint64 {
	z := make([]uint64, len(x)+len(y))
	for i, xi := range x {
		if xi == 0 {
			continue
		}
		var c uint64
		for j, yj := range y {
			hi, lo := bits.Mul64(xi, yj)
			var cc uint64
			lo, cc = bits.Add64(lo, z[i+j], 0)
			hi += cc
			lo, cc = bits.Add64(lo, c, 0)
			hi += cc
			// hi:lo < 10^38 + 2·10^19 fits; hi < 10^19 so Div64 is safe
			q, r := bits.Div64(hi, lo, BW)
			z[i+j] = r
			c = q
		}
		z[i+len(y)] = c
	}
	return refNorm(z)
}

func refAdd(x, y []uint64) []uint64 {
	if len(x) < len(y) {
		x, y = y, x
	}
	z := make([]uint64, len(x)+1)
	var c uint64
	for i := range x {
		s := x[i] + c // < 2^64 (x[i] < 10^19)
		c = 0
		if s >= BW {
			s -= BW
			c = 1
		}
		if i < len(y) {
			if s >= BW-y[i] { // s + y[i] >= B without overflowing
				s -= BW - y[i]
				c = 1
			} else {
				s += y[i]
			}
		}
		z[i] = s
	}
	z[len(x)] = c
	return refNorm(z)
}

func refCmp(x, y []uint64) int {
	x, y = refNorm(x), refNorm(y)
	if len(x) != len(y) {
		if len(x) < len(y) {
			return -1
		}
		return 1
	}
	for i := len(x) - 1; i >= 0; i-- {
		if x[i] != y[i] {
			if x[i] < y[i] {
				return -1
			}
			return 1
		}
	}
	return 0
}

// refSub returns x − y (x >= y).
func refSub(x, y []uint64) []uint64 {
	z := make([]uint64, len(x))
	var b uint64
	for i := range x {
		yi := b
		if i < len(y) {
			yi += y[i]
		}
		b = 0
		if x[i] >= yi {
			z[i] = x[i] - yi
		} else {
			z[i] = x[i] + BW - yi
			b = 1
		}
	}
	return refNorm(z)
}

func toWords(x []uint64) []Word {
	z := make([]Word, len(x))
	for i, w := range x {
		z[i] = Word(w)
	}
	return z
}

func fromWords(x []Word) []uint64 {
	z := make([]uint64, len(x))
	for i, w := range x {
		z[i] = uint64(w)
	}
	return z
}

func eqWords(a []Word, b []uint64) bool {
	if len(a) != len(b) {
		return false
	}
	for i := range a {
		if uint64(a[i]) != b[i] {
			return false
		}
	}
	return true
}

func natSelfCheck() {
	vs := [][]uint64{{1}, {BW - 1}, {BW - 1, BW - 1, BW - 1}, {0, 0, 1}, {BW / 2, 0, BW - 2, 7}, {123456789, BW - 5}}
	for _, a := range vs {
		for _, b := range vs {
			p := refMul(a, b)
			want := new(big.Int).Mul(wordsToInt(a), wordsToInt(b))
			if wordsToInt(p).Cmp(want) != 0 {
				fmt.Fprintln(os.Stderr, "HARNESS-ERROR: refMul self-check failed")
				os.Exit(2)
			}
			s := refAdd(a, b)
			if wordsToInt(s).Cmp(new(big.Int).Add(wordsToInt(a), wordsToInt(b))) != 0 {
				fmt.Fprintln(os.Stderr, "HARNESS-ERROR: refAdd self-check failed")
				os.Exit(2)
			}
			if refCmp(a, b) != wordsToInt(a).Cmp(wordsToInt(b)) {
				fmt.Fprintln(os.Stderr, "HARNESS-ERROR: refCmp self-check failed")
				os.Exit(2)
			}
			if refCmp(a, b) >= 0 {
				d := refSub(a, b)
				if wordsToInt(d).Cmp(new(big.Int).Sub(wordsToInt(a), wordsToInt(b))) != 0 {
					fmt.Fprintln(os.Stderr, "HARNESS-ERROR: refSub self-check failed")
					os.Exit(2)
				}
			}
		}
	}
}

// patterns of length n: uniform word with <= 1 exception at top/middle/bottom.
func natPatterns(n int, S []uint64, exc []uint64) [][]uint64 {
	seen := map[string]bool{}
	var out [][]uint64
	add := func(v []uint64) {
		if v[n-1] == 0 {
			return
		}
		k := fmt.Sprint(v)
		if !seen[k] {
			seen[k] = true
			out = append(out, v)
		}
	}
	for _, u := range S {
		base := make([]uint64, n)
		for i := range base {
			base[i] = u
		}
		add(append([]uint64(nil), base...))
		for _, p := range []int{n - 1, n / 2, 0} {
			for _, e := range exc {
				if e == u {
					continue
				}
				v := append([]uint64(nil), base...)
				v[p] = e
				add(v)
			}
		}
	}
	return out
}

func wordsKey(v []uint64) string {
	// compact: run-length
	s := fmt.Sprintf("len%d[", len(v))
	for i := 0; i < len(v); {
		j := i
		for j < len(v) && v[j] == v[i] {
			j++
		}
		if i > 0 {
			s += " "
		}
		if j-i > 1 {
			s += fmt.Sprintf("%d*%d", v[i], j-i)
		} else {
			s += fmt.Sprintf("%d", v[i])
		}
		i = j
	}
	return s + "]"
}

func poolProblems(c *Ctx, key string) {
	if theAdvPool == nil {
		return
	}
	for _, p := range theAdvPool.takeProblems() {
		c.Fail(key+" [pool]", "scratch-pool protocol: "+p)
	}
}

func dirtyBuf(n int) []Word {
	z := make([]Word, n)
	for i := range z {
		z[i] = Word(BW - 1 - uint64(i%3))
	}
	return z[:0]
}

func natMulCase(c *Ctx, x, y []uint64, thr string, zkind int) {
	if c.Skip() {
		return
	}
	xw, yw := toWords(x), toWords(y)
	var z []Word
	switch zkind {
	case 1:
		z = dirtyBuf(len(x) + len(y))
	case 2:
		z = dirtyBuf(len(x) + len(y) + 9)
	case 3:
		z = xw // aliased with x: must not be reused
	case 4, 5:
		// aliased with an operand that lives in a buffer with plenty of spare capacity (a receiver that
		// earlier held a much longer value): the spare room must not tempt the code into working in place
		src := xw
		if zkind == 5 {
			src = yw
		}
		buf := dirtyBuf(8*(len(x)+len(y)) + 10)[:len(src)]
		copy(buf, src)
		if zkind == 4 {
			xw = buf
		} else {
			yw = buf
		}
		z = buf
	}
	key := func() string {
		return fmt.Sprintf("mul x=%s y=%s thresholds=%s z=%d", wordsKey(x), wordsKey(y), thr, zkind)
	}
	var got []Word
	pv, _ := protect(func() { got = decimal.VerifDecMul(z, xw, yw) })
	if pv != nil {
		c.Fail(key(), fmt.Sprintf("panic: %v", pv))
		theAdvPool.takeProblems()
		return
	}
	want := refMul(x, y)
	c.Outcome(fnvStr(0, fmt.Sprint(len(want), want[0], want[len(want)-1])))
	c.NonTrivial()
	if !eqWords(got, want) {
		c.Fail(key(), fmt.Sprintf("product wrong: got %s want %s", wordsKey(fromWords(got)), wordsKey(want)))
	} else if (zkind != 3 && zkind != 4 && !eqWords(xw, x)) || (zkind != 5 && !eqWords(yw, y)) {
		c.Fail(key(), "operand modified")
	}
	poolProblems(c, key())
	if c.WantSample() {
		c.Sample(key())
	}
}

func natSqrCase(c *Ctx, x []uint64, thr string) {
	if c.Skip() {
		return
	}
	xw := toWords(x)
	key := func() string { return fmt.Sprintf("sqr x=%s thresholds=%s", wordsKey(x), thr) }
	var got []Word
	pv, _ := protect(func() { got = decimal.VerifDecSqr(dirtyBuf(2*len(x)+7), xw) })
	if pv != nil {
		c.Fail(key(), fmt.Sprintf("panic: %v", pv))
		theAdvPool.takeProblems()
		return
	}
	want := refMul(x, x)
	c.NonTrivial()
	if !eqWords(got, want) {
		c.Fail(key(), fmt.Sprintf("square wrong: got %s want %s", wordsKey(fromWords(got)), wordsKey(want)))
	} else if !eqWords(xw, x) {
		c.Fail(key(), "operand modified")
	}
	// in place: the destination is the operand itself, in a buffer with plenty of spare capacity
	// (z.Mul(z, z) on a receiver that earlier held a longer product)
	if len(x) > 0 {
		buf := dirtyBuf(8*len(x) + 10)[:len(x)]
		copy(buf, xw)
		var got2 []Word
		pv, _ := protect(func() { got2 = decimal.VerifDecSqr(buf, buf) })
		if pv != nil {
			c.Fail(key()+" in place", fmt.Sprintf("panic: %v", pv))
			theAdvPool.takeProblems()
		} else if !eqWords(got2, want) {
			c.Fail(key()+" in place", fmt.Sprintf("square wrong when the destination is the operand (spare capacity %d words): got %s want %s", cap(buf)-len(x), wordsKey(fromWords(got2)), wordsKey(want)))
		}
	}
	poolProblems(c, key())
	if c.WantSample() {
		c.Sample(key())
	}
}

// natDivCase checks q, r = u / v: every word < B, r < v, q·v + r == u, operands unchanged.
func natDivCase(c *Ctx, u, v []uint64, tag string) {
	if c.Skip() {
		return
	}
	uw, vw := toWords(u), toWords(v)
	key := func() string { return fmt.Sprintf("div u=%s v=%s %s", wordsKey(u), wordsKey(v), tag) }
	var q, r []Word
	// destination buffers: nil, or dirty buffers with spare capacity (a reused receiver / remainder)
	var zq, zr []Word
	if natDivDirty {
		zq, zr = dirtyBuf(len(u)+3), dirtyBuf(len(u)+5)
	}
	pv, _ := protect(func() { q, r = decimal.VerifDecDiv(zq, zr, uw, vw) })
	if pv != nil {
		c.Fail(key(), fmt.Sprintf("panic: %v", pv))
		theAdvPool.takeProblems()
		return
	}
	qq, rr := fromWords(q), fromWords(r)
	bad := ""
	for _, w := range qq {
		if w >= BW {
			bad = "quotient word >= 10^19"
		}
	}
	for _, w := range rr {
		if w >= BW {
			bad = "remainder word >= 10^19"
		}
	}
	if bad == "" && len(qq) > 0 && qq[len(qq)-1] == 0 {
		bad = "quotient not normalized"
	}
	if bad == "" && len(rr) > 0 && rr[len(rr)-1] == 0 {
		bad = "remainder not normalized"
	}
	if bad == "" && refCmp(rr, v) >= 0 {
		bad = "remainder >= divisor"
	}
	if bad == "" {
		back := refAdd(refMul(qq, v), rr)
		if refCmp(back, u) != 0 {
			bad = "q·v + r != u"
		}
	}
	if len(rr) > 0 {
		c.NonTrivial()
	}
	c.Outcome(fnv(uint64(len(qq)), uint64(len(rr)), firstOr0(qq), firstOr0(rr)))
	if bad != "" {
		c.Fail(key(), fmt.Sprintf("%s: q=%s r=%s", bad, wordsKey(qq), wordsKey(rr)))
	} else if !eqWords(uw, u) || !eqWords(vw, v) {
		c.Fail(key(), "operand modified")
	}
	poolProblems(c, key())
	// the quotient goes into the divisor's own buffer (z.Quo(x, z)): div must work on a private copy of v
	if len(v) > 1 {
		vb := dirtyBuf(4*len(u) + 8)[:len(v)]
		copy(vb, toWords(v))
		var q2, r2 []Word
		pv, _ := protect(func() { q2, r2 = decimal.VerifDecDiv(vb, nil, uw, vb) })
		if pv != nil {
			c.Fail(key()+" quotient-in-divisor-buffer", fmt.Sprintf("panic: %v", pv))
			theAdvPool.takeProblems()
		} else if !eqWords(q2, qq) || !eqWords(r2, rr) {
			c.Fail(key()+" quotient-in-divisor-buffer", fmt.Sprintf("q=%s r=%s, with separate buffers q=%s r=%s", wordsKey(fromWords(q2)), wordsKey(fromWords(r2)), wordsKey(qq), wordsKey(rr)))
		}
		poolProblems(c, key())
	}
	// the quotient goes into the dividend's own buffer (z.Quo(z, y)), and the remainder too
	if len(v) > 1 && len(u) >= len(v) {
		for which := 0; which < 2; which++ {
			ub := dirtyBuf(len(u) + 6)[:len(u)]
			copy(ub, toWords(u))
			var q3, r3 []Word
			pv, _ := protect(func() {
				if which == 0 {
					q3, r3 = decimal.VerifDecDiv(ub, nil, ub, vw)
				} else {
					q3, r3 = decimal.VerifDecDiv(nil, ub, ub, vw)
				}
			})
			nm := []string{" quotient-in-dividend-buffer", " remainder-in-dividend-buffer"}[which]
			if pv != nil {
				c.Fail(key()+nm, fmt.Sprintf("panic: %v", pv))
				theAdvPool.takeProblems()
			} else if !eqWords(q3, qq) || !eqWords(r3, rr) {
				c.Fail(key()+nm, fmt.Sprintf("q=%s r=%s, with separate buffers q=%s r=%s", wordsKey(fromWords(q3)), wordsKey(fromWords(r3)), wordsKey(qq), wordsKey(rr)))
			}
			poolProblems(c, key())
		}
	}
	if c.WantSample() {
		c.Sample(key())
	}
}

// natDivDirty selects dirty (non-nil, garbage-filled) quotient/remainder buffers for natDivCase.
var natDivDirty = false

func firstOr0(x []uint64) uint64 {
	if len(x) == 0 {
		return 0
	}
	return x[0]
}

type thrAssign struct{ k, bs, ks int }

func (t thrAssign) String() string { return fmt.Sprintf("%d/%d/%d", t.k, t.bs, t.ks) }

func natLayers(tier string) []Layer {
	thorough := tier == "thorough"
	var layers []Layer
	lens := []int{1, 2, 3, 4, 5, 7, 8, 9, 15, 16, 17, 31, 32, 33}
	if thorough {
		lens = nil
		for i := 1; i <= 48; i++ {
			lens = append(lens, i)
		}
	}
	kthr := []int{2, 3, 4, 5, 7, 8, 16, 30, 31, 40}
	excY := []uint64{1, BW - 1}
	// N1: multiplication × every Karatsuba threshold
	{
		type mn struct{ m, n int }
		var pairs []mn
		for _, m := range lens {
			for _, n := range lens {
				pairs = append(pairs, mn{m, n})
			}
		}
		for _, p := range [][2]int{{100, 3}, {64, 33}, {70, 64}, {129, 62}, {200, 100}, {63, 63}, {124, 31}} {
			pairs = append(pairs, mn{p[0], p[1]})
		}
		layers = append(layers, Layer{
			Name:   "N1-mul",
			Units:  len(pairs),
			Bounds: fmt.Sprintf("dec.mul for lengths (m,n) in %v² ∪ 7 large unbalanced pairs; x: uniform word of S7 with <=1 exception (top/middle/bottom); y: uniform with exception in {1,B-1}; Karatsuba threshold in %v (each, results compared with reference); destination nil/dirty/aliased", lens, kthr),
			Run: func(c *Ctx, u int) {
				installAdvPool(1024)
				ok, obs, oks := decimal.VerifThresholds()
				defer decimal.VerifSetThresholds(ok, obs, oks)
				m, n := pairs[u].m, pairs[u].n
				xs := natPatterns(m, S7, S7)
				ys := natPatterns(n, S7, excY)
				if m > 48 {
					xs = natPatterns(m, S7, excY)
				}
				for _, k := range kthr {
					decimal.VerifSetThresholds(k, obs, oks)
					thr := thrAssign{k, obs, oks}.String()
					for xi, x := range xs {
						for yi, y := range ys {
							if c.Done() {
								return
							}
							natMulCase(c, x, y, thr, (xi+yi)%6)
						}
					}
				}
			},
		})
	}
	// N2: squaring × squaring thresholds × Karatsuba thresholds
	{
		var slens []int
		for i := 1; i <= 70; i++ {
			slens = append(slens, i)
		}
		slens = append(slens, 100, 127, 128, 129, 200)
		var thrs []thrAssign
		for _, bs := range []int{1, 2, 10, 20} {
			for _, ks := range []int{2, 3, 4, 8, 50} {
				for _, k := range []int{2, 5, 30} {
					thrs = append(thrs, thrAssign{k, bs, ks})
				}
			}
		}
		layers = append(layers, Layer{
			Name:   "N2-sqr",
			Units:  len(slens),
			Bounds: fmt.Sprintf("dec.sqr for lengths 1..70 ∪ {100,127,128,129,200}; x: uniform S7 word with <=1 exception; thresholds (karatsuba/basicSqr/karatsubaSqr) in {2,5,30}×{1,2,10,20}×{2,3,4,8,50} = %d assignments", len(thrs)),
			Run: func(c *Ctx, u int) {
				installAdvPool(2048)
				ok, obs, oks := decimal.VerifThresholds()
				defer decimal.VerifSetThresholds(ok, obs, oks)
				n := slens[u]
				exc := S7
				if n > 70 {
					exc = excY
				}
				xs := natPatterns(n, S7, exc)
				for _, t := range thrs {
					decimal.VerifSetThresholds(t.k, t.bs, t.ks)
					for _, x := range xs {
						if c.Done() {
							return
						}
						natSqrCase(c, x, t.String())
					}
				}
			},
		})
	}
	// N3: small divisions, every pair
	{
		SU, SV, LU := S7, S7, 5
		if thorough {
			SU, SV = S9, S12
		}
		us := WVecs(LU, SU)
		vs := WVecs(3, SV)
		layers = append(layers, Layer{
			Name:   "N3-div-small",
			Units:  len(vs),
			Bounds: fmt.Sprintf("dec.div(u,v) for every u in W(%d,S%d) (%d vectors) and v in W(3,S%d) (%d vectors) incl. u < v and 1-word divisors", LU, len(SU), len(us), len(SV), len(vs)),
			Run: func(c *Ctx, u int) {
				installAdvPool(64)
				v := vs[u]
				for _, uu := range us {
					if c.Done() {
						return
					}
					natDivCase(c, uu, v, "")
				}
			},
		})
	}
	// N4: constructive u = q·v + r
	{
		qs := WVecs(3, S9)
		vs := WVecs(3, S9)
		if !thorough {
			qs = WVecs(3, S7)
		}
		layers = append(layers, Layer{
			Name:   "N4-div-constructive",
			Units:  len(vs),
			Bounds: fmt.Sprintf("u = q·v + r, r in {0, 1, v−1}; q in %d vectors, v in W(3,S9) (%d vectors)", len(qs), len(vs)),
			Run: func(c *Ctx, u int) {
				installAdvPool(64)
				v := vs[u]
				vm1 := refSub(v, []uint64{1})
				for _, q := range qs {
					if c.Done() {
						return
					}
					p := refMul(q, v)
					for _, dirty := range []bool{false, true} {
						natDivDirty = dirty
						tg := ""
						if dirty {
							tg = "dirty-buffers "
						}
						natDivCase(c, p, v, tg+"r=0")
						natDivCase(c, refAdd(p, []uint64{1}), v, tg+"r=1")
						if len(vm1) > 0 {
							natDivCase(c, refAdd(p, vm1), v, tg+"r=v-1")
						}
					}
					natDivDirty = false
				}
			},
		})
	}
	// N5: long divisions through the real recursion threshold
	{
		vlens := []int{99, 100, 101, 128, 199, 200}
		qlens := []int{1, 2, 50, 100, 101}
		if thorough {
			vlens = []int{99, 100, 101, 127, 128, 129, 150, 198, 199, 200, 260, 400}
			qlens = []int{1, 2, 3, 50, 99, 100, 101, 150}
		}
		type vq struct{ v, q, k int }
		var units []vq
		for _, v := range vlens {
			for _, q := range qlens {
				for _, k := range []int{30, 4, 7} {
					units = append(units, vq{v, q, k})
				}
			}
		}
		layers = append(layers, Layer{
			Name:   "N5-div-long",
			Units:  len(units),
			Bounds: fmt.Sprintf("u = q·v + r, r in {0,1,v−1}; len(v) in %v (recursive division, depth up to 3), len(q) in %v; v: uniform S7 word with exception in {1,B-1} at top/middle/bottom, q: uniform S7 words and 1-exception patterns subset; Karatsuba threshold in {30,4,7}", vlens, qlens),
			Run: func(c *Ctx, u int) {
				installAdvPool(4096)
				ok, obs, oks := decimal.VerifThresholds()
				defer decimal.VerifSetThresholds(ok, obs, oks)
				t := units[u]
				decimal.VerifSetThresholds(t.k, obs, oks)
				vsP := natPatterns(t.v, S7, excY)
				qsP := natPatterns(t.q, S7, excY)
				if !thorough && len(qsP) > 12 {
					var q2 [][]uint64
					for i := 0; i < len(qsP); i += len(qsP) / 12 {
						q2 = append(q2, qsP[i])
					}
					qsP = q2
				}
				for _, v := range vsP {
					vm1 := refSub(v, []uint64{1})
					for _, q := range qsP {
						if c.Done() {
							return
						}
						p := refMul(q, v)
						tag := fmt.Sprintf("k=%d", t.k)
						for _, dirty := range []bool{false, true} {
							natDivDirty = dirty
							tg := tag
							if dirty {
								tg += " dirty-buffers"
							}
							natDivCase(c, p, v, tg+" r=0")
							natDivCase(c, refAdd(p, []uint64{1}), v, tg+" r=1")
							natDivCase(c, refAdd(p, vm1), v, tg+" r=v-1")
						}
						natDivDirty = false
					}
				}
			},
		})
	}
	// N9: every divisor length in a contiguous range (the depth of the recursion, the sizes of its
	// scratch tables and the block size depend on the length alone)
	{
		lo, hi := 95, 420
		if thorough {
			hi = 1700
		}
		const per = 6
		layers = append(layers, Layer{
			Name:   "N9-div-every-length",
			Units:  (hi - lo + per) / per,
			Bounds: fmt.Sprintf("u = q·v + r for every len(v) in %d..%d, len(q) in {len(v)/2+1, len(v)+3, 2·len(v)+1 (≤ 600 words)}, v = 7·10^18 then words 1234567890123456789+i, q = words 9876543210987654321−i, r in {0, v−1}, clean and dirty buffers", lo, hi),
			Run: func(c *Ctx, u int) {
				installAdvPool(4096)
				for n := lo + u*per; n < lo+(u+1)*per && n <= hi; n++ {
					v := make([]uint64, n)
					for i := range v {
						v[i] = 1234567890123456789 + uint64(i)
					}
					v[n-1] = 7 * (BW / 10)
					vm1 := refSub(v, []uint64{1})
					for _, ql := range []int{n/2 + 1, n + 3, 2*n + 1} {
						if ql > 600 && ql != n/2+1 {
							continue
						}
						if c.Done() {
							return
						}
						q := make([]uint64, ql)
						for i := range q {
							q[i] = 9876543210987654321 - uint64(i)
						}
						p := refMul(q, v)
						for _, dirty := range []bool{false, true} {
							natDivDirty = dirty
							tg := fmt.Sprintf("len(v)=%d len(q)=%d", n, ql)
							if dirty {
								tg += " dirty-buffers"
							}
							natDivCase(c, p, v, tg+" r=0")
							natDivCase(c, refAdd(p, vm1), v, tg+" r=v-1")
						}
						natDivDirty = false
					}
				}
			},
		})
	}
	// N10: dense operands (every word from a fixed xorshift sequence: no structure for an estimate to be
	// lucky on) at the lengths where the last block of the recursive division is exactly B = len(v)/2
	// words: how far the block estimate may overshoot depends on the digits of both operands
	{
		streams := 64
		if thorough {
			streams = 1024
		}
		var ns []int
		for n := 100; n <= 218; n += 2 {
			ns = append(ns, n, n+1)
		}
		layers = append(layers, Layer{
			Name:   "N10-div-dense-operands-at-block-lengths",
			Units:  len(ns),
			Bounds: fmt.Sprintf("u / v for len(v) = n in 100..219, len(u) = n + k·⌊n/2⌋ for k in {1,2,3}, %d fixed word sequences per (n,k) (xorshift64*, seed = (n,k,i), words mod 10^19): quotient and remainder against the schoolbook reference, no panic", streams),
			Run: func(c *Ctx, u int) {
				installAdvPool(4096)
				n := ns[u]
				B := n / 2
				for k := 1; k <= 3; k++ {
					m := n + B*k
					for i := 0; i < streams; i++ {
						if c.Done() {
							return
						}
						st := uint64(n)*1000003 + uint64(k)*7919 + uint64(i)*104729 + 88172645463325252
						next := func() uint64 {
							st ^= st >> 12
							st ^= st << 25
							st ^= st >> 27
							return (st * 2685821657736338717) % BW
						}
						uw, vw := make([]uint64, m), make([]uint64, n)
						for j := range uw {
							uw[j] = next()
						}
						for j := range vw {
							vw[j] = next()
						}
						if uw[m-1] == 0 {
							uw[m-1] = 1
						}
						if vw[n-1] == 0 {
							vw[n-1] = 1
						}
						natDivCase(c, uw, vw, fmt.Sprintf("dense n=%d k=%d stream=%d", n, k, i))
					}
				}
			},
		})
	}
	// N11: dense operands (fixed xorshift sequences) for the basic division (divisors of 2..99 words), for
	// mul and for sqr around the algorithm thresholds: the structured operands of N1–N4 make every
	// quotient-digit estimate exact or nearly so
	{
		streams := 8
		if thorough {
			streams = 64
		}
		dense := func(n int, seed uint64) []uint64 {
			st := seed*6364136223846793005 + 1442695040888963407
			v := make([]uint64, n)
			for j := range v {
				st ^= st >> 12
				st ^= st << 25
				st ^= st >> 27
				v[j] = (st * 2685821657736338717) % BW
			}
			if v[n-1] == 0 {
				v[n-1] = 1
			}
			return v
		}
		layers = append(layers, Layer{
			Name:   "N11-dense-operands",
			Units:  98,
			Bounds: fmt.Sprintf("n = 2..99: u / v for len(v) = n and len(u) in {n+1, n+2, n+n/2, 2n, 2n+1, 3n}; x·y for (n, n), (n, n/2+1), (2n+1, n); x² for n: %d fixed word sequences each (xorshift64*, words mod 10^19, also with a top word ≥ 9·10^18 and = 10^18); Karatsuba thresholds {default, 4, 7}; against the schoolbook reference", streams),
			Run: func(c *Ctx, u int) {
				installAdvPool(4096)
				ok, obs, oks := decimal.VerifThresholds()
				defer decimal.VerifSetThresholds(ok, obs, oks)
				n := u + 2
				for _, k := range []int{ok, 4, 7} {
					decimal.VerifSetThresholds(k, obs, oks)
					thr := thrAssign{k, obs, oks}.String()
					for i := 0; i < streams; i++ {
						if c.Done() {
							return
						}
						seed := uint64(n)*1000 + uint64(i)
						v := dense(n, seed)
						switch i % 4 {
						case 1:
							v[n-1] = 9*(BW/10) + v[n-1]%(BW/10)
						case 2:
							v[n-1] = BW / 10
						}
						for mi, m := range []int{n + 1, n + 2, n + n/2, 2 * n, 2*n + 1, 3 * n} {
							if k != ok && mi%2 == 1 {
								continue
							}
							natDivCase(c, dense(m, seed*31+uint64(m)), v, fmt.Sprintf("dense n=%d m=%d stream=%d k=%d", n, m, i, k))
						}
						natMulCase(c, dense(n, seed+7), v, thr, i%6)
						natMulCase(c, v, dense(n/2+1, seed+9), thr, (i+1)%6)
						natMulCase(c, dense(2*n+1, seed+11), v, thr, (i+2)%6)
						natSqrCase(c, v, thr)
					}
				}
			},
		})
	}
	// N7: recursive division with extreme partial remainders at a block boundary:
	// u = ((qhi·b^B + blk)·v + rem)·b^m + low, B = len(v)/2 (the recursion's block size),
	// so that after the block `blk` the running remainder is rem (v−1: every estimate of
	// that block is one too large and the correction path with its borrow chain runs).
	{
		vlens := []int{100, 128, 200}
		if thorough {
			vlens = []int{100, 101, 127, 128, 150, 200, 256, 400}
		}
		tops := []uint64{BW / 2, BW - 1, BW / 10, 1}
		layers = append(layers, Layer{
			Name:   "N7-div-block-remainders",
			Units:  len(vlens) * len(tops) * 2,
			Bounds: fmt.Sprintf("u = ((qhi·b^B + blk)·v + rem)·b^m + low with B = len(v)/2: len(v) in %v; v = top word {B/2,B−1,10^18,1} · uniform word {1,B/2,B−1} · low half {all nines, all zeros, uniform}; qhi in {8·10^18 1…1, all nines}; blk = one non-zero word {1,B/2,B−1,7654321987654321} in the lowest position, or a full block; rem in {v−1, v−2, 0}; m in {B, 2B}, low in {zeros, nines}; Karatsuba threshold {30, 4}", vlens),
			Run: func(c *Ctx, u int) {
				installAdvPool(4096)
				ok, obs, oks := decimal.VerifThresholds()
				defer decimal.VerifSetThresholds(ok, obs, oks)
				kthr := []int{30, 4}[u%2]
				decimal.VerifSetThresholds(kthr, obs, oks)
				n := vlens[u/2/len(tops)]
				top := tops[u/2%len(tops)]
				B := n / 2
				uni := func(n int, w uint64) []uint64 {
					v := make([]uint64, n)
					for i := range v {
						v[i] = w
					}
					return v
				}
				shiftW := func(x []uint64, k int) []uint64 { return append(make([]uint64, k), x...) }
				for _, mid := range []uint64{1, BW / 2, BW - 1} {
					for lowKind := 0; lowKind < 3; lowKind++ {
						v := uni(n, mid)
						v[n-1] = top
						for i := 0; i < B-1; i++ {
							switch lowKind {
							case 0:
								v[i] = BW - 1
							case 1:
								v[i] = 0
							}
						}
						vm1 := refSub(v, []uint64{1})
						vm2 := refSub(v, []uint64{2})
						for qk := 0; qk < 2; qk++ {
							qhi := uni(B, 1)
							qhi[B-1] = 8 * (BW / 10)
							if qk == 1 {
								qhi = uni(B, BW-1)
							}
							for bk := 0; bk < 5; bk++ {
								if c.Done() {
									return
								}
								blk := make([]uint64, B)
								switch bk {
								case 0, 1, 2:
									blk[0] = []uint64{1, BW / 2, BW - 1}[bk]
								case 3:
									blk[0] = 7654321987654321
								case 4:
									blk = uni(B, BW/2)
								}
								q := append(append([]uint64{}, blk...), qhi...) // little-endian: blk below qhi
								qv := refMul(refNorm(q), v)
								for ri, rem := range [][]uint64{vm1, vm2, nil} {
									head := qv
									if rem != nil {
										head = refAdd(qv, rem)
									}
									for _, m := range []int{B, 2 * B} {
										for lk, lw := range []uint64{0, BW - 1} {
											uu := shiftW(head, m)
											for i := 0; i < m; i++ {
												uu[i] = lw
											}
											tag := fmt.Sprintf("k=%d qhi=%d blk=%d rem=%d m=%d low=%d", kthr, qk, bk, ri, m, lk)
											natDivDirty = (bk+ri+lk)%2 == 1
											natDivCase(c, uu, v, tag)
											natDivDirty = false
										}
									}
								}
							}
						}
					}
				}
			},
		})
	}
	// N6: public API on large operands: Mul and Quo correctly rounded, exact/inexact decision
	{
		vlens := []int{31, 64, 100, 128}
		if thorough {
			vlens = []int{31, 33, 64, 100, 101, 128, 200}
		}
		layers = append(layers, Layer{
			Name:   "N6-public-large",
			Units:  len(vlens) * 7,
			Bounds: fmt.Sprintf("Mul(q,v) and Quo(q·v + r, v), r in {0,1}, len(v) in %v words, v uniform S7 word (+exception), q of 2 and len(v)/2 words; prec in {19·len(q), 19·len(q)+1, 19·(len(q)+len(v)), 20, 38}; modes Even/ToZero/AwayFromZero/ToPositiveInf", vlens),
			Run: func(c *Ctx, u int) {
				installAdvPool(4096)
				n := vlens[u/7]
				w := S7[u%7]
				if w == 0 {
					w = 3
				}
				mkv := func(n int, w, top, bottom uint64) []uint64 {
					v := make([]uint64, n)
					for i := range v {
						v[i] = w
					}
					v[n-1], v[0] = top, bottom
					return v
				}
				for _, top := range []uint64{w, BW - 1, BW / 2} {
					v := mkv(n, w, top, w)
					for _, ql := range []int{2, n / 2} {
						for _, qw := range []uint64{BW - 1, 1, BW / 2} {
							if c.Done() {
								return
							}
							q := mkv(ql, qw, qw, qw)
							vo := mkWords(false, v, 0, 0, 0)
							qo := mkWords(false, q, 3, 0, 0)
							vd, qd := vo.Build(), qo.Build()
							precs := []uint32{uint32(19 * ql), uint32(19*ql + 1), uint32(19 * (ql + n)), 20, 38} // the last two: far below the operand lengths
							modes := []uint8{ToNearestEven, ToZero, AwayFromZero, ToPositiveInf}
							binSweep(c, judgeValue, []int{opMul}, qo, vo, qd, vd, precs, modes)
							pi := new(big.Int).Mul(qo.V.Coef, vo.V.Coef)
							for _, r := range []int64{0, 1} {
								xi := new(big.Int).Add(pi, big.NewInt(r))
								xo := mkCoef(false, xi, qo.V.E10+vo.V.E10, uint32(ndigits(xi))+1, 0)
								xd := xo.Build()
								binSweep(c, judgeValue, []int{opQuo}, xo, vo, xd, vd, precs, modes)
								binSweep(c, judgeAcc, []int{opQuo}, xo, vo, xd, vd, precs, modes)
								// long dividend: (q·v)·10^(19k) + r, quotient precision far below the dividend length
								xl := new(big.Int).Mul(pi, p10(19*3))
								xl.Add(xl, big.NewInt(r))
								xlo := mkCoef(false, xl, -5, uint32(ndigits(xl))+1, 0)
								xld := xlo.Build()
								binSweep(c, judgeValue, []int{opQuo}, xlo, vo, xld, vd, []uint32{uint32(19 * ql), 5}, modes)
							}
							// reused receiver that holds a non-zero value of similar size (dirty quotient buffer)
							if !c.Skip() {
								z := fresh(uint32(19*(ql+n)), ToNearestEven)
								z.Quo(qd, vd)
								xo := mkCoef(false, pi, qo.V.E10+vo.V.E10, uint32(ndigits(pi))+1, 0)
								pvv, _ := protect(func() { z.SetPrec(uint(19*ql)).Quo(xo.Build(), vd) })
								if o := Observe(z); pvv != nil || !o.Val().Equal(qo.V) || o.Acc != 0 {
									c.Fail(fmt.Sprintf("Quo into a reused receiver n=%d ql=%d w=%d top=%d", n, ql, w, top), fmt.Sprintf("panic=%v got %s acc=%d, want the exact quotient %s", pvv, o.Val().Norm(), o.Acc, qo.V.Norm()))
								}
							}
							poolProblems(c, fmt.Sprintf("public n=%d", n))
						}
					}
				}
			},
		})
	}
	// N8: public Mul/Quo of the long structured operands (all nines, 10^B+1, sparse, uniform) at precisions
	// far below the operand lengths: the product must be exact before the one rounding
	{
		vals := largeOperands(thorough)
		layers = append(layers, Layer{
			Name:   "N8-public-long-factors-short-precision",
			Units:  len(vals),
			Bounds: fmt.Sprintf("Mul(x,y) and Quo(x,y) over all pairs of %d operands (31..130 words, 200 thorough: all nines, 10^B+1, sparse, uniform edge words, and 1–2-word partners) at precision {19, 20, 38, 57}; modes Even/ToZero/AwayFromZero/ToNegativeInf", len(vals)),
			Run: func(c *Ctx, u int) {
				xo := vals[u]
				x := xo.Build()
				for yi, yo := range vals {
					if c.Done() {
						return
					}
					if len(xo.Words) > 2 && len(yo.Words) > 2 && (u+yi)%2 != 0 {
						continue
					}
					binSweep(c, judgeValue, []int{opMul, opQuo}, xo, yo, x, yo.Build(), []uint32{19, 20, 38, 57}, []uint8{ToNearestEven, ToZero, AwayFromZero, ToNegativeInf})
				}
			},
		})
	}
	return layers
}

func init() {
	register(&Property{
		ID: "C06", Level: "model_checking",
		Rule: "a case is (operation, operand word vectors, threshold assignment, destination kind); all cases distinct by construction; division cases are non-trivial when the remainder is non-zero, mul/sqr always (multi-word carries)",
		Assumptions: []string{
			"operands are uniform edge-word vectors with at most one exception (plus all vectors over S7..S12 up to 5 words for division); lengths up to 200 words quick / 400 thorough",
			"divRecursiveThreshold is a constant and is exercised at its shipped value (100) only",
			"scratch pool replaced by an adversarial pool (garbage on Get, poison on Put) through a build-time overlay of dec.go",
			"reference arithmetic: 60 lines of schoolbook base-10^19 code, self-checked against math/big at start-up",
		},
		Layers: func(tier string) []Layer {
			natSelfCheck()
			if !poolSeamsPresent() {
				fmt.Fprintln(os.Stderr, "HARNESS-ERROR: pool seams not present in this build (overlay missing)")
				os.Exit(2)
			}
			return natLayers(tier)
		},
	})
}
