package main

import (
	"fmt"
	"math/big"
	"strings"

	"github.com/db47h/decimal"
)

type Dec = decimal.Decimal
type Word = decimal.Word

const BW = uint64(10000000000000000000)

// Obs is everything observable about a Decimal through the public API.
type Obs struct {
	Form  int8
	Neg   bool
	Words []uint64 // copy of the mantissa words (little endian)
	Len   int
	Cap   int
	Exp   int32
	Prec  uint32
	Mode  uint8
	Acc   int8
}

func Observe(x *Dec) Obs {
	o := Obs{Neg: x.Signbit(), Prec: uint32(x.Prec()), Mode: uint8(x.Mode()), Acc: int8(x.Acc())}
	switch {
	case x.IsInf():
		o.Form = fInf
	case x.IsZero():
		o.Form = fZero
	default:
		o.Form = fFinite
	}
	m, e := x.BitsExp()
	o.Len, o.Cap = len(m), cap(m)
	if o.Form == fFinite {
		o.Exp = e
		o.Words = make([]uint64, len(m))
		for i, w := range m {
			o.Words[i] = uint64(w)
		}
	}
	return o
}

func wordsToInt(ws []uint64) *big.Int {
	z := new(big.Int)
	var t big.Int
	for i := len(ws) - 1; i >= 0; i-- {
		z.Mul(z, bigB)
		t.SetUint64(ws[i])
		z.Add(z, &t)
	}
	return z
}

func intToWords(x *big.Int) []uint64 {
	var ws []uint64
	t := new(big.Int).Set(x)
	r := new(big.Int)
	for t.Sign() > 0 {
		t.QuoRem(t, bigB, r)
		ws = append(ws, r.Uint64())
	}
	return ws
}

// Val returns the exact value denoted by the observation.
func (o Obs) Val() Val {
	if o.Form != fFinite {
		return Val{Form: o.Form, Neg: o.Neg}
	}
	c := wordsToInt(o.Words)
	if c.Sign() == 0 {
		return Val{Form: fFinite, Neg: o.Neg, Coef: c, E10: 0} // malformed; Canonical reports it
	}
	return Val{Form: fFinite, Neg: o.Neg, Coef: c, E10: int64(o.Exp) - int64(len(o.Words))*DW}
}

func (o Obs) String() string {
	s := ""
	if o.Neg {
		s = "-"
	}
	switch o.Form {
	case fZero:
		s += "0"
	case fInf:
		s += "Inf"
	default:
		s += fmt.Sprintf("%v exp=%d", o.Words, o.Exp)
	}
	return fmt.Sprintf("{%s prec=%d mode=%d acc=%d}", s, o.Prec, o.Mode, o.Acc)
}

func (o Obs) Hash() uint64 {
	h := fnv(uint64(o.Form), b2u(o.Neg), uint64(uint32(o.Exp)), uint64(o.Prec), uint64(o.Mode), uint64(uint8(o.Acc)))
	if o.Form != fFinite {
		return fnv(uint64(o.Form), b2u(o.Neg), uint64(o.Prec), uint64(o.Mode), uint64(uint8(o.Acc)))
	}
	for _, w := range o.Words {
		h = fnv(h, w)
	}
	return h
}

func b2u(b bool) uint64 {
	if b {
		return 1
	}
	return 0
}

// Canonical is the representation invariant (property C08). It returns "" when
// the observation is canonical and a description of the breach otherwise.
func Canonical(o Obs) string {
	if o.Mode > 5 {
		return fmt.Sprintf("rounding mode %d out of range", o.Mode)
	}
	if o.Acc < -1 || o.Acc > 1 {
		return fmt.Sprintf("accuracy %d out of range", o.Acc)
	}
	if o.Form != fFinite {
		return ""
	}
	if len(o.Words) == 0 {
		return "finite value with empty mantissa"
	}
	for i, w := range o.Words {
		if w >= BW {
			return fmt.Sprintf("mantissa word %d = %d >= 10^19", i, w)
		}
	}
	top := o.Words[len(o.Words)-1]
	if top < BW/10 {
		return fmt.Sprintf("leading digit is zero (top word %d)", top)
	}
	if o.Prec == 0 {
		return "finite value with precision 0"
	}
	// no nonzero digit beyond the precision
	mp := minPrecWords(o.Words)
	if mp < 1 || mp > int64(o.Prec) {
		return fmt.Sprintf("MinPrec %d outside [1, prec=%d]", mp, o.Prec)
	}
	return ""
}

func minPrecWords(ws []uint64) int64 {
	tz := int64(0)
	for _, w := range ws {
		if w == 0 {
			tz += DW
			continue
		}
		for w%10 == 0 {
			w /= 10
			tz++
		}
		break
	}
	return int64(len(ws))*DW - tz
}

// ---------------------------------------------------------------------------
// Operand descriptions

// Opnd describes an operand (or expected value) independent of any *Decimal.
type Opnd struct {
	Form  int8
	Neg   bool
	Words []uint64 // normalized mantissa words (top word >= 10^18), low zero words allowed
	Exp   int64    // decimal exponent: |x| = 0.words × 10^Exp
	Prec  uint32
	Mode  uint8
	V     Val // exact value (cached)
	// Stale (±0 and ±Inf only): what the variable held before it became special.
	// The library documents that mant/exp of a special are ignored and never
	// clears them, so "a zero/infinity with a history" is a distinct input shape.
	Stale int8
	// Gob (finite only): the value arrived through a gob payload carrying exactly Words, so the
	// mantissa may be longer than the precision needs (low zero words that no rounding removed).
	Gob bool
}

// staleKinds: previous finite contents of a variable that is now ±0/±Inf.
var staleKinds = []struct {
	name  string
	words []uint64
	exp   int64
}{
	{"", nil, 0},
	{"held-1", []uint64{BW / 10}, 1},
	{"held-1e-7", []uint64{BW / 10}, -6},
	{"held-3-words", []uint64{BW - 1, BW - 1, BW - 1}, 25},
	{"held-5e5", []uint64{BW / 2}, 6},
	{"held-0.5", []uint64{BW / 2}, 0}, // stale exponent 0: indistinguishable from a clean zero by its exponent alone
}

// staleSpecials returns ±0 and ±Inf in every non-trivial history (variables that held a finite value before).
func staleSpecials(prec uint32, mode uint8) []*Opnd {
	var out []*Opnd
	for k := 1; k < len(staleKinds); k++ {
		for _, f := range []int8{fZero, fInf} {
			out = append(out, mkSpecial(f, k%2 == 0, prec, mode).withStale(int8(k)), mkSpecial(f, k%2 == 1, prec, mode).withStale(int8(k)))
		}
	}
	return out
}

// withStale returns a copy of the special operand a with the given history.
func (a *Opnd) withStale(k int8) *Opnd {
	if a.Form == fFinite {
		return a
	}
	b := *a
	b.Stale = k
	return &b
}

func (a *Opnd) String() string {
	s := ""
	if a.Neg {
		s = "-"
	}
	switch a.Form {
	case fZero:
		s += "0"
		if a.Stale != 0 {
			s += "(" + staleKinds[a.Stale].name + ")"
		}
	case fInf:
		s += "Inf"
		if a.Stale != 0 {
			s += "(" + staleKinds[a.Stale].name + ")"
		}
	default:
		s += fmt.Sprintf("%s", a.V.Norm().String()[b2i(a.Neg):])
		s += fmt.Sprintf("[w%d]", len(a.Words))
		if a.Gob {
			s += "(via gob)"
		}
	}
	return fmt.Sprintf("%s/p%d/m%d", s, a.Prec, a.Mode)
}

func b2i(b bool) int {
	if b {
		return 1
	}
	return 0
}

// mkSpecial returns ±0 or ±Inf.
func mkSpecial(form int8, neg bool, prec uint32, mode uint8) *Opnd {
	return &Opnd{Form: form, Neg: neg, Prec: prec, Mode: mode, V: Val{Form: form, Neg: neg}}
}

// mkWords builds a finite operand from raw little-endian words whose top word is
// non-zero; the words are left-normalized (exactly like SetBitsExp does) and exp
// is the decimal exponent of the value 0.words×10^exp before normalization.
// prec 0 means "exactly the capacity of the word vector".
func mkWords(neg bool, raw []uint64, exp int64, prec uint32, mode uint8) *Opnd {
	c := wordsToInt(raw)
	if c.Sign() == 0 {
		panic("mkWords: zero")
	}
	n := len(raw)
	for n > 0 && raw[n-1] == 0 {
		n--
	}
	exp -= int64(len(raw)-n) * DW
	// left-normalize
	top := raw[n-1]
	s := int64(0)
	for t := top; t < BW/10; t *= 10 {
		s++
	}
	cn := c
	if s > 0 {
		cn = new(big.Int).Mul(c, p10(s))
	}
	ws := intToWords(cn)
	for len(ws) < n {
		ws = append([]uint64{0}, ws...) // cannot happen (top word nonzero) but keep length
	}
	// intToWords drops nothing at the low end; length is n
	if len(ws) != n {
		// low words are kept by intToWords (little-endian from the bottom), so this is a bug
		panic(fmt.Sprintf("mkWords: length %d != %d", len(ws), n))
	}
	exp -= s
	if prec == 0 {
		prec = uint32(n * DW)
	}
	o := &Opnd{Form: fFinite, Neg: neg, Words: ws, Exp: exp, Prec: prec, Mode: mode}
	o.V = Val{Form: fFinite, Neg: neg, Coef: cn, E10: exp - int64(n)*DW}
	if mp := minPrecWords(ws); mp > int64(prec) {
		panic(fmt.Sprintf("mkWords: prec %d < MinPrec %d", prec, mp))
	}
	return o
}

// mkCoef builds a finite operand with value ±coef×10^e10.
func mkCoef(neg bool, coef *big.Int, e10 int64, prec uint32, mode uint8) *Opnd {
	d := ndigits(coef)
	// left-align into whole words
	n := (d + DW - 1) / DW
	c := new(big.Int).Mul(coef, p10(n*DW-d))
	ws := intToWords(c)
	for int64(len(ws)) < n {
		ws = append(ws, 0)
	}
	// strip low zero words (a freshly computed value would not carry them)
	for len(ws) > 1 && ws[0] == 0 {
		ws = ws[1:]
	}
	o := mkWords(neg, ws, d+e10, prec, mode)
	return o
}

func mkInt64(v int64, e10 int64, prec uint32, mode uint8) *Opnd {
	if v == 0 {
		return mkSpecial(fZero, false, prec, mode)
	}
	neg := v < 0
	if neg {
		v = -v
	}
	return mkCoef(neg, big.NewInt(v), e10, prec, mode)
}

// Build materializes the operand as a fresh *Decimal (own mantissa array).
func (a *Opnd) Build() *Dec {
	z := new(Dec)
	a.BuildInto(z)
	return z
}

func (a *Opnd) BuildInto(z *Dec) {
	z.SetMode(decimal.RoundingMode(a.Mode))
	if a.Form != fFinite && a.Stale != 0 {
		// give the variable a history: a finite value first, made special in place
		k := staleKinds[a.Stale]
		ws := make([]Word, len(k.words))
		for i, w := range k.words {
			ws[i] = Word(w)
		}
		z.SetPrec(60)
		z.SetBitsExp(ws, k.exp)
		if a.Form == fZero {
			z.SetUint64(0)
		}
	}
	switch a.Form {
	case fZero:
		z.SetPrec(uint(a.Prec))
		if a.Neg {
			z.Neg(z)
		}
	case fInf:
		z.SetPrec(uint(a.Prec))
		z.SetInf(a.Neg)
	default:
		if a.Gob {
			d := viaGob(a)
			if d == nil {
				panic("Opnd.Build: gob payload for " + a.String() + " rejected")
			}
			*z = *d
			return
		}
		ws := make([]Word, len(a.Words), len(a.Words))
		for i, w := range a.Words {
			ws[i] = Word(w)
		}
		p := a.Prec
		if p == 0 {
			p = uint32(len(ws) * DW)
		}
		z.SetPrec(uint(p))
		z.SetBitsExp(ws, a.Exp)
		if a.Neg {
			z.Neg(z)
		}
		if a.Prec == 0 {
			panic("Opnd.Build: prec 0 finite")
		}
	}
	z.SetMode(decimal.RoundingMode(a.Mode)) // acc = Exact
}

// CheckBuilt verifies that construction through the API produced what was intended.
func (a *Opnd) CheckBuilt(z *Dec) string {
	o := Observe(z)
	if o.Form != a.Form || o.Neg != a.Neg || o.Prec != a.Prec || o.Mode != a.Mode || o.Acc != 0 {
		return fmt.Sprintf("constructed %s, intended %s", o, a)
	}
	if a.Form == fFinite {
		if int64(o.Exp) != a.Exp || len(o.Words) != len(a.Words) {
			return fmt.Sprintf("constructed %s, intended %s (exp %d words %v)", o, a, a.Exp, a.Words)
		}
		for i := range o.Words {
			if o.Words[i] != a.Words[i] {
				return fmt.Sprintf("constructed %s, intended %s (words %v)", o, a, a.Words)
			}
		}
	}
	return ""
}

// fromObs converts an observation into an operand description.
func opndFromObs(o Obs) *Opnd {
	a := &Opnd{Form: o.Form, Neg: o.Neg, Prec: o.Prec, Mode: o.Mode, V: o.Val()}
	if o.Form == fFinite {
		a.Words = append([]uint64(nil), o.Words...)
		a.Exp = int64(o.Exp)
	}
	return a
}

// ---------------------------------------------------------------------------
// comparison of an observed result with the model

// cmpResult compares observation o with expectation r. what selects the
// projection: "value" (form, sign, digits, exponent), "acc", or both.
func cmpValue(o Obs, r RRes) string {
	if o.Form != r.Form {
		return fmt.Sprintf("form: got %s, want %s", o, r)
	}
	if o.Neg != r.Neg {
		return fmt.Sprintf("sign: got %s, want %s", o, r)
	}
	if o.Form == fFinite && !o.Val().Equal(r.Val()) {
		return fmt.Sprintf("value: got %s (= %s), want %s", o, o.Val().Norm(), r.Val().Norm())
	}
	return ""
}

// trueAcc returns sign(stored − exact) for a stored observation and the exact
// value ex (finite or zero); for stored infinities/zeros the range rule applies.
func trueAcc(o Obs, ex Val) int8 {
	st := o.Val()
	return int8(CmpVal(st, ex))
}

func modeName(m uint8) string {
	if int(m) < len(modeNames) {
		return modeNames[m]
	}
	return fmt.Sprintf("mode%d", m)
}

func goLit(a *Opnd) string {
	switch a.Form {
	case fZero:
		if a.Neg {
			return fmt.Sprintf("mustParse(%q, %d, %d)", "-0", a.Prec, a.Mode)
		}
		return fmt.Sprintf("mustParse(%q, %d, %d)", "0", a.Prec, a.Mode)
	case fInf:
		if a.Neg {
			return fmt.Sprintf("mustParse(%q, %d, %d)", "-Inf", a.Prec, a.Mode)
		}
		return fmt.Sprintf("mustParse(%q, %d, %d)", "+Inf", a.Prec, a.Mode)
	}
	v := a.V.Norm()
	s := v.Coef.String() + fmt.Sprintf("e%d", v.E10)
	if a.Neg {
		s = "-" + s
	}
	return fmt.Sprintf("mustParse(%q, %d, %d)", s, a.Prec, a.Mode)
}

func joinStr(xs []string, sep string) string { return strings.Join(xs, sep) }

// ---------------------------------------------------------------------------
// plain go test source for arithmetic cases (embedded in replay files)

func goOperand(name string, a *Opnd) string {
	if a.Form != fFinite && a.Stale != 0 {
		k := staleKinds[a.Stale]
		st := mkWords(false, k.words, k.exp, 60, 0).V.Norm()
		var sb strings.Builder
		fmt.Fprintf(&sb, "\t%s, _, err := decimal.ParseDecimal(\"%se%d\", 10, 60, decimal.RoundingMode(%d)) // the variable's earlier contents\n\tif err != nil {\n\t\tt.Fatal(err)\n\t}\n", name, st.Coef.String(), st.E10, a.Mode)
		if a.Form == fZero {
			fmt.Fprintf(&sb, "\t%s.SetUint64(0)\n\t%s.SetPrec(%d)\n", name, name, a.Prec)
			if a.Neg {
				fmt.Fprintf(&sb, "\t%s.Neg(%s)\n", name, name)
			}
		} else {
			fmt.Fprintf(&sb, "\t%s.SetPrec(%d)\n\t%s.SetInf(%v)\n", name, a.Prec, name, a.Neg)
		}
		return sb.String()
	}
	lit := "0"
	switch a.Form {
	case fZero:
		if a.Neg {
			lit = "-0"
		}
	case fInf:
		lit = "+Inf"
		if a.Neg {
			lit = "-Inf"
		}
	default:
		v := a.V.Norm()
		lit = fmt.Sprintf("%se%d", v.Coef.String(), v.E10)
		if a.Neg {
			lit = "-" + lit
		}
	}
	p := a.Prec
	if a.Form == fFinite && p < uint32(ndigits(a.V.Norm().Coef)) {
		p = uint32(ndigits(a.V.Norm().Coef))
	}
	return fmt.Sprintf("\t%s, _, err := decimal.ParseDecimal(%q, 10, %d, decimal.RoundingMode(%d))\n\tif err != nil {\n\t\tt.Fatal(err)\n\t}\n", name, lit, maxU32(p, 1), a.Mode)
}

func maxU32(a, b uint32) uint32 {
	if a > b {
		return a
	}
	return b
}

func goExpect(exp RRes) string {
	if exp.NaN {
		return "panic(ErrNaN)"
	}
	s := ""
	if exp.Neg {
		s = "-"
	}
	switch exp.Form {
	case fZero:
		return s + "0"
	case fInf:
		if exp.Neg {
			return "-Inf"
		}
		return "+Inf"
	}
	v := exp.Val().Norm()
	return fmt.Sprintf("%s0.%se%+d", s, v.Coef.String(), v.Exp())
}

// goTestArith renders a test for z.Op(operands...) with a fresh receiver (prec, mode).
func goTestArith(op string, names []string, ops []*Opnd, prec uint32, mode uint8, exp RRes, wantAcc bool) string {
	var sb strings.Builder
	sb.WriteString("package decimal_test\n\nimport (\n\t\"testing\"\n\n\t\"github.com/db47h/decimal\"\n)\n\n")
	sb.WriteString("// generated by /verif: replays one enumerated case through the public API\nfunc TestVerifReplay(t *testing.T) {\n")
	for i, a := range ops {
		sb.WriteString(goOperand(names[i], a))
	}
	fmt.Fprintf(&sb, "\tz := new(decimal.Decimal).SetPrec(%d).SetMode(decimal.RoundingMode(%d)) // %s\n", prec, mode, modeName(mode))
	call := fmt.Sprintf("z.%s(%s)", op, strings.Join(names[:len(ops)], ", "))
	if exp.NaN {
		fmt.Fprintf(&sb, "\tdefer func() {\n\t\tif _, ok := recover().(decimal.ErrNaN); !ok {\n\t\t\tt.Fatal(\"expected an ErrNaN panic\")\n\t\t}\n\t}()\n\t%s\n}\n", call)
		return sb.String()
	}
	fmt.Fprintf(&sb, "\t%s\n", call)
	fmt.Fprintf(&sb, "\tif got, want := z.Text('p', 0), %q; got != want {\n\t\tt.Errorf(\"value: got %%s, want %%s\", got, want)\n\t}\n", goExpect(exp))
	if wantAcc {
		fmt.Fprintf(&sb, "\tif got, want := z.Acc(), decimal.Accuracy(%d); got != want {\n\t\tt.Errorf(\"accuracy: got %%v, want %%v\", got, want)\n\t}\n", exp.Acc)
	}
	sb.WriteString("}\n")
	return sb.String()
}
