package main

// Operation catalogue for the arithmetic operations, with execution under an
// arbitrary aliasing partition of {z, operands} and receiver pre-states.

import (
	"fmt"

	"github.com/db47h/decimal"
)

type OpSpec struct {
	ID    int
	Name  string
	Arity int
	Do    func(z *Dec, a []*Dec)
	Model func(v []Val, prec uint32, mode uint8) RRes
}

var opSpecs = map[int]*OpSpec{
	opAdd:  {opAdd, "Add", 2, func(z *Dec, a []*Dec) { z.Add(a[0], a[1]) }, func(v []Val, p uint32, m uint8) RRes { return ModelAdd(v[0], v[1], p, m) }},
	opSub:  {opSub, "Sub", 2, func(z *Dec, a []*Dec) { z.Sub(a[0], a[1]) }, func(v []Val, p uint32, m uint8) RRes { return ModelSub(v[0], v[1], p, m) }},
	opMul:  {opMul, "Mul", 2, func(z *Dec, a []*Dec) { z.Mul(a[0], a[1]) }, func(v []Val, p uint32, m uint8) RRes { return ModelMul(v[0], v[1], p, m) }},
	opQuo:  {opQuo, "Quo", 2, func(z *Dec, a []*Dec) { z.Quo(a[0], a[1]) }, func(v []Val, p uint32, m uint8) RRes { return ModelQuo(v[0], v[1], p, m) }},
	opFMA:  {opFMA, "FMA", 3, func(z *Dec, a []*Dec) { z.FMA(a[0], a[1], a[2]) }, func(v []Val, p uint32, m uint8) RRes { return ModelFMA(v[0], v[1], v[2], p, m) }},
	opSqrt: {opSqrt, "Sqrt", 1, func(z *Dec, a []*Dec) { z.Sqrt(a[0]) }, func(v []Val, p uint32, m uint8) RRes { return ModelSqrt(v[0], p, m) }},
	opSet:  {opSet, "Set", 1, func(z *Dec, a []*Dec) { z.Set(a[0]) }, func(v []Val, p uint32, m uint8) RRes { return RoundVal(v[0], p, m) }},
	opNeg: {opNeg, "Neg", 1, func(z *Dec, a []*Dec) { z.Neg(a[0]) }, func(v []Val, p uint32, m uint8) RRes {
		r := RoundVal(v[0], p, m)
		r.Neg, r.Acc = !r.Neg, -r.Acc
		return r
	}},
	opAbs: {opAbs, "Abs", 1, func(z *Dec, a []*Dec) { z.Abs(a[0]) }, func(v []Val, p uint32, m uint8) RRes {
		r := RoundVal(v[0], p, m)
		if r.Neg {
			r.Neg, r.Acc = false, -r.Acc
		}
		return r
	}},
}

// partitions returns all set partitions of {0..k} (0 is the receiver) as
// restricted growth strings: part[i] is the class of element i, part[0] = 0.
func partitions(k int) [][]int {
	var out [][]int
	cur := make([]int, k+1)
	var rec func(i, maxc int)
	rec = func(i, maxc int) {
		if i > k {
			out = append(out, append([]int(nil), cur...))
			return
		}
		for c := 0; c <= maxc+1; c++ {
			cur[i] = c
			m := maxc
			if c > m {
				m = c
			}
			rec(i+1, m)
		}
	}
	cur[0] = 0
	rec(1, 0)
	return out
}

func partString(p []int) string {
	names := []string{"z", "x", "y", "u"}
	groups := map[int][]string{}
	maxc := 0
	for i, c := range p {
		groups[c] = append(groups[c], names[i])
		if c > maxc {
			maxc = c
		}
	}
	s := ""
	for c := 0; c <= maxc; c++ {
		if c > 0 {
			s += "|"
		}
		s += joinStr(groups[c], "=")
	}
	return s
}

// Pre-states of a receiver that is not aliased to an operand.
const (
	preFresh      = iota // zero value + SetPrec/SetMode
	preLonger            // held a 4-word value, cap 8, stale words B−1 beyond
	preShorter           // held a 1-word value (cap 1)
	preInf               // +Inf
	preNegInf            // −Inf
	preNegZero           // −0 with a large stale buffer
	preCapExact          // finite value whose buffer is exactly 2 words
	preInexact           // finite value with acc = Above and negative sign
	preBigDirty          // 40-word buffer full of B−1, now holding a 1-word value
	preCancelled         // held a 6-word value, then z.Sub(z, z): zero whose mantissa slice is empty but keeps its dirty array
	preParsedZero        // held a 6-word value, then parsed "0" (and a rejected literal): empty mantissa over a dirty array
	numPre
)

var preNames = []string{"fresh", "held-longer", "held-shorter", "+Inf", "-Inf", "-0-dirty", "cap2", "neg-inexact", "big-dirty", "cancelled-to-zero", "parsed-zero"}

func buildPre(kind int, prec uint32, mode uint8) *Dec {
	z := new(Dec)
	switch kind {
	case preFresh:
	case preLonger:
		buf := make([]Word, 8)
		for i := range buf {
			buf[i] = Word(BW - 1)
		}
		z.SetPrec(200)
		z.SetBitsExp(buf[:4], 7)
	case preShorter:
		z.SetPrec(19)
		z.SetBitsExp([]Word{Word(BW / 2)}, -3)
	case preInf:
		z.SetInf(false)
	case preNegInf:
		z.SetInf(true)
	case preNegZero:
		buf := make([]Word, 6)
		for i := range buf {
			buf[i] = Word(BW - 1)
		}
		z.SetPrec(200)
		z.SetBitsExp(buf, 0)
		z.SetPrec(0) // value → 0, buffer stays
		z.Neg(z)
	case preCapExact:
		buf := []Word{Word(BW - 1), Word(BW - 1)}
		z.SetPrec(38)
		z.SetBitsExp(buf, 12)
	case preInexact:
		// the receiver's previous operation was inexact, and it already has the requested attributes
		// (SetPrec/SetMode afterwards would reset the accuracy to Exact)
		z.SetMode(decimal.RoundingMode(mode))
		if prec == 0 {
			z.SetPrec(3).SetInt64(-12345)
			z.SetPrec(0) // value -> -0 with accuracy Above, precision 0
		} else {
			z.SetPrec(uint(prec))
			z.Quo(new(Dec).SetInt64(-1), new(Dec).SetInt64(3))
		}
		if z.Acc() == 0 {
			panic("buildPre(preInexact): accuracy is Exact")
		}
		return z
	case preCancelled, preParsedZero:
		buf := make([]Word, 6, 9)
		for i := range buf[:9] {
			buf[:9][i] = Word(BW - 1 - uint64(i))
		}
		z.SetPrec(200)
		z.SetBitsExp(buf, 4)
		if kind == preCancelled {
			z.Sub(z, z)
		} else {
			z.SetString("0.000")
			z.SetString("0x") // rejected
		}
	case preBigDirty:
		buf := make([]Word, 40)
		for i := range buf {
			buf[i] = Word(BW - 1)
		}
		z.SetPrec(1000)
		z.SetBitsExp(buf, 0)
		z.SetPrec(0)
		z.SetPrec(19)
		z.SetBitsExp(buf[:1], 1)
	}
	// set attributes without disturbing the (stale) contents
	if z.Prec() != uint(prec) {
		if z.IsInf() || z.IsZero() {
			z.SetPrec(uint(prec))
		} else {
			// a finite value: install the precision by growing only (never rounds when prec is larger);
			// if the requested precision is smaller the old value is rounded, which is fine for a pre-state
			z.SetPrec(uint(prec))
		}
	}
	z.SetMode(decimal.RoundingMode(mode))
	return z
}

// execPart executes op with the given aliasing partition. vals[i] is the value
// of operand i (operands in the same class must carry equal values). The
// receiver has (prec, mode); if some operand aliases it, the receiver holds
// that operand's value (which must fit in prec digits), otherwise it is built
// from pre-state pre.
func execPart(spec *OpSpec, part []int, vals []*Opnd, prec uint32, mode uint8, pre int) (o Obs, pv interface{}, isNaN bool, operandsAfter []Obs, operands []*Dec) {
	vars := map[int]*Dec{}
	var z *Dec
	zAliased := false
	for i := 1; i <= spec.Arity; i++ {
		if part[i] == 0 {
			zAliased = true
			a := *vals[i-1]
			a.Prec, a.Mode = prec, mode
			z = a.buildVariant(recvVariant)
		}
	}
	if !zAliased {
		z = buildPre(pre, prec, mode)
	}
	vars[0] = z
	args := make([]*Dec, spec.Arity)
	for i := 1; i <= spec.Arity; i++ {
		c := part[i]
		if vars[c] == nil {
			vars[c] = vals[i-1].Build()
		}
		args[i-1] = vars[c]
	}
	pv, isNaN = protect(func() { spec.Do(z, args) })
	o = Observe(z)
	for _, a := range args {
		operandsAfter = append(operandsAfter, Observe(a))
	}
	return o, pv, isNaN, operandsAfter, args
}

func valsOf(os []*Opnd) []Val {
	v := make([]Val, len(os))
	for i, o := range os {
		v[i] = o.V
	}
	return v
}

func opndsString(os []*Opnd) string {
	names := []string{"x", "y", "u"}
	s := ""
	for i, o := range os {
		if i > 0 {
			s += " "
		}
		s += names[i] + "=" + o.String()
	}
	return s
}

// judgeFull compares an observed outcome with the model: value and accuracy.
func judgeFull(o Obs, pv interface{}, isNaN bool, exp RRes, wantAcc bool) string {
	if pv != nil {
		if exp.NaN && isNaN {
			return ""
		}
		return fmt.Sprintf("panic: %v (expected %s)", pv, exp)
	}
	if exp.NaN {
		return "expected an ErrNaN panic, got none: " + o.String()
	}
	if msg := Canonical(o); msg != "" {
		return "result not canonical: " + msg
	}
	if !matchValue(o, exp) {
		return cmpValue(o, exp)
	}
	if wantAcc && o.Acc != exp.Acc {
		return fmt.Sprintf("Acc() = %d, want %d; got %s, want %s", o.Acc, exp.Acc, o, exp)
	}
	return ""
}

// recvVariant selects how a receiver that is also an operand is materialised by execPart:
// 0 = tight buffer, accuracy Exact; 1 = accuracy != Exact (obtained by a real rounding);
// 2 = large dirty buffer (capacity 8× the length, stale words beyond the mantissa).
var recvVariant = 0

const numRecvVariants = 3

func (a *Opnd) buildVariant(v int) *Dec {
	if a.Form != fFinite {
		return a.Build()
	}
	switch v {
	case 1:
		// round a slightly different value to a.Prec digits under a.Mode so that the stored value is exactly a.V
		for _, dir := range []bool{false, true} {
			tiny := Val{Form: fFinite, Neg: a.Neg != dir, Coef: big1, E10: a.V.E10 - 25}
			src := addExact(a.V, tiny)
			if src.Form != fFinite || src.Exp() > MaxExp || src.E10 < MinExp+100 {
				continue
			}
			so := mkCoef(src.Neg, src.Coef, src.E10, uint32(ndigits(src.Coef)), 0)
			z := fresh(a.Prec, a.Mode)
			z.Set(so.Build())
			if o := Observe(z); o.Acc != 0 && o.Val().Equal(a.V) {
				return z
			}
		}
		return a.Build()
	case 2:
		n := len(a.Words)
		buf := make([]Word, 8*n+6)
		for i := range buf {
			buf[i] = Word(BW - 1 - uint64(i%5))
		}
		for i, w := range a.Words {
			buf[i] = Word(w)
		}
		z := new(Dec)
		z.SetMode(decimal.RoundingMode(a.Mode)).SetPrec(uint(a.Prec))
		z.SetBitsExp(buf[:n], a.Exp)
		if a.Neg {
			z.Neg(z)
		}
		z.SetMode(decimal.RoundingMode(a.Mode))
		if o := Observe(z); !o.Val().Equal(a.V) || o.Prec != a.Prec || o.Mode != a.Mode {
			panic("buildVariant: constructed " + o.String() + " for " + a.String())
		}
		return z
	}
	return a.Build()
}
