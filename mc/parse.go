package main

// C12: parsing. Reference grammar + exact literal evaluator, all short strings
// over a 14-symbol alphabet, structured decimal literals, binary/octal/hex and
// p-exponent literals, agreement of the other parsing entry points with Parse,
// differential comparison of the accept set with math/big.

import (
	"encoding/json"
	"fmt"
	"math"
	"math/big"
	"strconv"
	"strings"

	"github.com/db47h/decimal"
)

type lit struct {
	ok     bool
	inf    bool
	neg    bool
	base   int      // actual mantissa base (0 for ±Inf, as returned by Parse)
	mant   *big.Int // all mantissa digits as an integer in base `base`
	fcount int      // number of digits after the radix point
	ebase  int      // 10 or 2 (10 when there is no exponent)
	exp    int64
}

func digitVal(ch byte) int {
	switch {
	case '0' <= ch && ch <= '9':
		return int(ch - '0')
	case 'a' <= ch && ch <= 'z':
		return int(ch-'a') + 10
	case 'A' <= ch && ch <= 'Z':
		return int(ch-'A') + 10
	}
	return 99
}

// refLit is the reference grammar of Parse (written from its documentation).
func refLit(s string, base int) lit {
	bad := lit{}
	if s == "Inf" || s == "inf" {
		return lit{ok: true, inf: true}
	}
	if len(s) == 4 && (s[0] == '+' || s[0] == '-') && (s[1:] == "Inf" || s[1:] == "inf") {
		return lit{ok: true, inf: true, neg: s[0] == '-'}
	}
	l := lit{ebase: 10}
	i := 0
	if i < len(s) && (s[i] == '+' || s[i] == '-') {
		l.neg = s[i] == '-'
		i++
	}
	b := base
	sepOK := base == 0
	afterPrefix := false
	if base == 0 {
		b = 10
		if i+1 < len(s) && s[i] == '0' {
			switch s[i+1] {
			case 'b', 'B':
				b = 2
			case 'o', 'O':
				b = 8
			case 'x', 'X':
				b = 16
			}
			if b != 10 {
				i += 2
				afterPrefix = true
			}
		}
	}
	l.base = b
	l.mant = new(big.Int)
	bb := big.NewInt(int64(b))
	ndig := 0
	seenDot := false
	prevDigit := afterPrefix // a '_' is allowed right after a base prefix
	lastSep := false
	for i < len(s) {
		ch := s[i]
		if ch == '.' && !seenDot {
			if lastSep {
				return bad
			}
			seenDot = true
			prevDigit = false
			i++
			continue
		}
		if ch == '_' && sepOK {
			if !prevDigit {
				return bad
			}
			prevDigit = false
			lastSep = true
			i++
			continue
		}
		d := digitVal(ch)
		if d >= b {
			break
		}
		l.mant.Mul(l.mant, bb)
		l.mant.Add(l.mant, big.NewInt(int64(d)))
		ndig++
		if seenDot {
			l.fcount++
		}
		prevDigit = true
		lastSep = false
		i++
	}
	if ndig == 0 || lastSep {
		return bad
	}
	// exponent
	if i < len(s) && (s[i] == 'e' || s[i] == 'E' || s[i] == 'p' || s[i] == 'P') {
		if s[i] == 'p' || s[i] == 'P' {
			l.ebase = 2
		}
		i++
		var digs []byte
		if i < len(s) && (s[i] == '+' || s[i] == '-') {
			if s[i] == '-' {
				digs = append(digs, '-')
			}
			i++
		}
		n := 0
		prevD, lastS := false, false
		for i < len(s) {
			ch := s[i]
			if '0' <= ch && ch <= '9' {
				digs = append(digs, ch)
				n++
				prevD, lastS = true, false
			} else if ch == '_' && sepOK {
				if !prevD {
					return bad
				}
				prevD, lastS = false, true
			} else {
				break
			}
			i++
		}
		if n == 0 || lastS {
			return bad
		}
		e, err := strconv.ParseInt(string(digs), 10, 64)
		if err != nil {
			return bad
		}
		l.exp = e
	}
	if i != len(s) {
		return bad
	}
	if l.mant.Sign() == 0 {
		l.ok = true
		return l
	}
	// range of the decimal exponent (binary contributions are applied by multiplication)
	e10 := ndigits(l.mant)
	if b == 10 {
		e10 -= int64(l.fcount)
	}
	if l.ebase == 10 {
		if l.exp > 1<<40 || l.exp < -(1<<40) {
			return bad
		}
		e10 += l.exp
	}
	if e10 < MinExp || e10 > MaxExp {
		return bad
	}
	l.ok = true
	return l
}

func (l lit) isDecimal() bool { return l.base == 10 && l.ebase == 10 }

// decimalVal returns the exact value of a pure decimal literal.
func (l lit) decimalVal() Val {
	if l.mant.Sign() == 0 {
		return Val{Form: fZero, Neg: l.neg}
	}
	return Val{Form: fFinite, Neg: l.neg, Coef: l.mant, E10: l.exp - int64(l.fcount)}
}

// ratVal returns the exact value of any finite literal (|binary exponent| must be moderate).
func (l lit) ratVal() *big.Rat {
	r := new(big.Rat).SetInt(l.mant)
	mulPow := func(base int64, e int64) {
		if e == 0 {
			return
		}
		p := new(big.Int).Exp(big.NewInt(base), big.NewInt(abs64(e)), nil)
		if e > 0 {
			r.Mul(r, new(big.Rat).SetInt(p))
		} else {
			r.Quo(r, new(big.Rat).SetInt(p))
		}
	}
	mulPow(int64(l.base), -int64(l.fcount))
	mulPow(int64(l.ebase), l.exp)
	if l.neg {
		r.Neg(r)
	}
	return r
}

func obsRat(o Obs) *big.Rat {
	v := o.Val()
	r := new(big.Rat).SetInt(v.Coef)
	if v.E10 >= 0 {
		r.Mul(r, new(big.Rat).SetInt(p10(v.E10)))
	} else {
		r.Quo(r, new(big.Rat).SetInt(p10(-v.E10)))
	}
	if v.Neg {
		r.Neg(r)
	}
	return r
}

// ratDigits reports whether r = c×10^e with c of at most prec digits, and returns that value.
func ratRepresentable(r *big.Rat, prec uint32) (Val, bool) {
	if r.Sign() == 0 {
		return Val{Form: fZero}, true
	}
	den := new(big.Int).Set(r.Denom())
	num := new(big.Int).Abs(r.Num())
	// denominator must be of the form 2^a 5^b
	a, b5 := 0, 0
	two, five := big.NewInt(2), big.NewInt(5)
	m := new(big.Int)
	for {
		q, rem := new(big.Int).QuoRem(den, two, m)
		if rem.Sign() != 0 {
			break
		}
		den = q
		a++
	}
	for {
		q, rem := new(big.Int).QuoRem(den, five, m)
		if rem.Sign() != 0 {
			break
		}
		den = q
		b5++
	}
	if den.Cmp(big1) != 0 {
		return Val{}, false
	}
	k := a
	if b5 > k {
		k = b5
	}
	num.Mul(num, new(big.Int).Exp(two, big.NewInt(int64(k-a)), nil))
	num.Mul(num, new(big.Int).Exp(five, big.NewInt(int64(k-b5)), nil))
	v := Val{Form: fFinite, Neg: r.Sign() < 0, Coef: num, E10: -int64(k)}.Norm()
	return v, ndigits(v.Coef) <= int64(prec)
}

// judgeParsed checks the receiver after a successful parse of literal l.
func judgeParsed(c *Ctx, j judge, key func() string, l lit, o Obs, prec uint32, mode uint8) {
	if msg := Canonical(o); msg != "" {
		c.Fail(key(), "parsed value not canonical: "+msg)
		return
	}
	ep := prec
	if ep == 0 {
		ep = 34
	}
	if l.inf {
		if j == judgeValue && (o.Form != fInf || o.Neg != l.neg) {
			c.Fail(key(), fmt.Sprintf("got %s, want ±Inf", o))
		}
		return
	}
	if o.Prec != ep && j == judgeValue {
		c.Fail(key(), fmt.Sprintf("receiver precision %d, want %d", o.Prec, ep))
		return
	}
	if l.isDecimal() {
		exp := RoundVal(l.decimalVal(), ep, mode)
		if exp.Acc != 0 {
			c.NonTrivial()
		}
		ok := matchValue(o, exp)
		if j == judgeValue {
			if !ok {
				c.Fail(key(), cmpValue(o, exp))
			} else if o.Acc != exp.Acc {
				c.Fail(key(), fmt.Sprintf("Acc() = %d, want %d (%s)", o.Acc, exp.Acc, o))
			}
		} else {
			want := exp.Acc
			if !ok {
				want = int8(CmpVal(o.Val(), l.decimalVal()))
			}
			if o.Acc != want {
				c.Fail(key(), fmt.Sprintf("Acc() = %d but sign(stored − exact) = %d; stored %s", o.Acc, want, o))
			}
		}
		return
	}
	if j != judgeValue {
		return
	}
	// binary-flavoured literal: exact when representable, else within one ulp
	if l.mant.Sign() == 0 {
		if o.Form != fZero || o.Neg != l.neg {
			c.Fail(key(), fmt.Sprintf("got %s, want zero", o))
		}
		return
	}
	r := l.ratVal()
	if o.Form != fFinite {
		c.Fail(key(), fmt.Sprintf("got %s, want the finite value %s", o, r.FloatString(40)))
		return
	}
	if v, ok := ratRepresentable(r, ep); ok {
		if !o.Val().Equal(v) {
			c.Fail(key(), fmt.Sprintf("representable value not stored exactly: got %s, want %s", o.Val().Norm(), v))
		}
		return
	}
	c.NonTrivial()
	d := new(big.Rat).Sub(obsRat(o), r)
	d.Abs(d)
	ulpE := int64(o.Exp) - int64(ep)
	ulp := new(big.Rat)
	if ulpE >= 0 {
		ulp.SetInt(p10(ulpE))
	} else {
		ulp.SetFrac(big1, p10(-ulpE))
	}
	if d.Cmp(ulp) > 0 {
		c.Fail(key(), fmt.Sprintf("more than one unit in the last place away: got %s, exact %s", o.Val().Norm(), r.FloatString(int(ep)+10)))
	}
}

var parseBases = []int{0, 2, 8, 10, 16}

// parseCase runs Parse(s, base) on a receiver (prec, mode) and compares with the reference.
func parseCase(c *Ctx, j judge, s string, base int, prec uint32, mode uint8, diffBig bool) {
	if c.Skip() {
		return
	}
	l := refLit(s, base)
	z := fresh(prec, mode)
	var d *Dec
	var b int
	var err error
	pv, _ := protect(func() { d, b, err = z.Parse(s, base) })
	key := func() string { return fmt.Sprintf("Parse(%q, %d) prec=%d mode=%s", s, base, prec, modeName(mode)) }
	if pv != nil {
		c.Fail(key(), fmt.Sprintf("panic: %v", pv))
		return
	}
	c.Outcome(fnvStr(uint64(base), s) ^ b2u(err == nil))
	if j == judgeValue {
		if !l.ok {
			if err == nil {
				c.Fail(key(), fmt.Sprintf("invalid literal accepted: result %s", Observe(z)))
			} else if d != nil {
				c.Fail(key(), "error returned together with a non-nil result")
			}
		} else {
			switch {
			case err != nil:
				c.Fail(key(), fmt.Sprintf("valid literal rejected: %v", err))
				return
			case d != z:
				c.Fail(key(), "returned *Decimal is not the receiver")
				return
			case b != l.base:
				c.Fail(key(), fmt.Sprintf("detected base %d, want %d", b, l.base))
				return
			}
		}
		if diffBig {
			// differential: accept set and base of math/big (small exponents only)
			_, bb, berr := new(big.Float).Parse(s, base)
			if (berr == nil) != (err == nil) || (err == nil && bb != b) {
				c.Fail(key()+" [math/big]", fmt.Sprintf("decimal: err=%v base=%d; big.Float.Parse: err=%v base=%d", err, b, berr, bb))
			}
		}
	}
	if !l.ok || err != nil {
		return
	}
	judgeParsed(c, j, key, l, Observe(z), prec, mode)
	if c.WantSample() {
		c.Sample(fmt.Sprintf("%s -> %s", key(), Observe(z)))
	}
}

// otherEntryPoints: SetString, ParseDecimal, UnmarshalText and Sscan must agree with Parse.
func otherEntryPoints(c *Ctx, s string, prec uint32, mode uint8, onlyAccepted bool) {
	if c.Skip() {
		return
	}
	key := func(n string) string { return fmt.Sprintf("%s(%q) prec=%d mode=%s", n, s, prec, modeName(mode)) }
	ref := fresh(prec, mode)
	var rerr error
	pv, _ := protect(func() { _, _, rerr = ref.Parse(s, 0) })
	if pv != nil {
		return // reported by parseCase
	}
	if onlyAccepted && rerr != nil {
		return
	}
	ro := Observe(ref)
	same := func(name string, z *Dec, ok bool) {
		if ok != (rerr == nil) {
			c.Fail(key(name), fmt.Sprintf("success=%v but Parse(s,0) err=%v", ok, rerr))
			return
		}
		if !ok {
			return
		}
		o := Observe(z)
		if o.Form != ro.Form || o.Neg != ro.Neg || o.Prec != ro.Prec || o.Mode != ro.Mode || o.Acc != ro.Acc || (o.Form == fFinite && !o.Val().Equal(ro.Val())) {
			c.Fail(key(name), fmt.Sprintf("got %s, Parse(s,0) gives %s", o, ro))
		}
	}
	c.NonTrivial()
	// receivers: fresh, one whose previous operation was inexact (stale accuracy), one with a longer dirty buffer
	for _, pre := range []int{preFresh, preInexact, preLonger} {
		pn := ""
		if pre != preFresh {
			pn = " into " + preNames[pre]
		}
		{
			z := buildPre(pre, prec, mode)
			var r *Dec
			var ok bool
			pv, _ := protect(func() { r, ok = z.SetString(s) })
			if pv != nil {
				c.Fail(key("SetString"+pn), fmt.Sprintf("panic: %v", pv))
			} else {
				if !ok && r != nil {
					c.Fail(key("SetString"+pn), "failure with a non-nil result")
				}
				same("SetString"+pn, z, ok)
			}
		}
		{
			z := buildPre(pre, prec, mode)
			var err error
			pv, _ := protect(func() { err = z.UnmarshalText([]byte(s)) })
			if pv != nil {
				c.Fail(key("UnmarshalText"+pn), fmt.Sprintf("panic: %v", pv))
			} else {
				same("UnmarshalText"+pn, z, err == nil)
			}
		}
		// Sscan: only for accepted finite literals without characters that fmt treats specially
		if rerr == nil && ro.Form != fInf && !strings.ContainsAny(s, " \t\n") {
			z := buildPre(pre, prec, mode)
			var err error
			var n int
			pv, _ := protect(func() { n, err = fmt.Sscan(s, z) })
			if pv != nil {
				c.Fail(key("Sscan"+pn), fmt.Sprintf("panic: %v", pv))
			} else if err != nil || n != 1 {
				c.Fail(key("Sscan"+pn), fmt.Sprintf("n=%d err=%v for a literal Parse accepts", n, err))
			} else {
				same("Sscan"+pn, z, true)
			}
		}
		if pre != preFresh {
			z := buildPre(pre, prec, mode)
			var err error
			pv, _ := protect(func() { _, _, err = z.Parse(s, 0) })
			if pv != nil {
				c.Fail(key("Parse"+pn), fmt.Sprintf("panic: %v", pv))
			} else {
				same("Parse"+pn, z, err == nil)
			}
		}
	}
	{
		var r *Dec
		var err error
		pv, _ := protect(func() { r, _, err = decimal.ParseDecimal(s, 0, uint(prec), decimal.RoundingMode(mode)) })
		if pv != nil {
			c.Fail(key("ParseDecimal"), fmt.Sprintf("panic: %v", pv))
		} else if err == nil && r == nil {
			c.Fail(key("ParseDecimal"), "nil result without error")
		} else if err != nil {
			same("ParseDecimal", nil, false)
		} else {
			same("ParseDecimal", r, true)
		}
	}
}

// canonicalAfterParseLayer (C08): whatever a text entry point is given — accepted or
// rejected — the receiver it leaves behind is a canonical Decimal.
func canonicalAfterParseLayer(tier string) Layer {
	maxLen := 5
	if tier == "thorough" {
		maxLen = 6
	}
	A := parseAlphabet
	extra := []string{"1e2147483648", "1e-2147483650", "0.5e2147483648", "9999999999999999999999e2147483640", "1e99999999999999999999", "1e-99999999999999999999",
		"0x1p2147483648", "0b1p-2147483650", "12345678901234567890123456789012345678901234567890x", "1_000_000_000_000_000_000_000e", "Infinity", "+Inf.", "0x.p1", "1e+", "--1", "1..2"}
	return Layer{
		Name:   "T1-text-input-leaves-canonical",
		Units:  len(A) + 1,
		Bounds: fmt.Sprintf("every string of length 0..%d over the 14 symbols %q and %d long/out-of-range literals, through SetString, Parse(·,0), UnmarshalText, json.Unmarshal and fmt.Sscan, into receivers {held a 4-word value (precision 3), previous result inexact (precision 5), 1-word value in a 40-word dirty buffer (precision 19)}: accepted or rejected, the receiver is canonical afterwards", maxLen, A, len(extra)),
		Run: func(c *Ctx, u int) {
			try := func(s string) {
				for pi, pre := range []int{preLonger, preInexact, preBigDirty} {
					prec := []uint32{3, 5, 19}[pi]
					for ei := 0; ei < 5; ei++ {
						if c.Skip() {
							continue
						}
						z := buildPre(pre, prec, uint8(ei))
						var err error
						name := ""
						pv, _ := protect(func() {
							switch ei {
							case 0:
								name = "SetString"
								if _, ok := z.SetString(s); !ok {
									err = fmt.Errorf("rejected")
								}
							case 1:
								name = "Parse"
								_, _, err = z.Parse(s, 0)
							case 2:
								name = "UnmarshalText"
								err = z.UnmarshalText([]byte(s))
							case 3:
								name = "json.Unmarshal"
								err = json.Unmarshal([]byte(strconv.Quote(s)), z)
							case 4:
								name = "Sscan"
								_, err = fmt.Sscan(s, z)
							}
						})
						key := func() string { return fmt.Sprintf("%s(%q) into %s prec=%d", name, s, preNames[pre], prec) }
						if pv != nil {
							c.Fail(key(), fmt.Sprintf("panic: %v", pv))
							continue
						}
						if err != nil {
							c.NonTrivial()
						}
						c.Outcome(b2u(err == nil))
						if msg := Canonical(Observe(z)); msg != "" {
							c.Fail(key(), fmt.Sprintf("receiver malformed afterwards (err=%v): %s", err, msg))
						}
					}
				}
			}
			if u == len(A) {
				try("")
				for _, s := range extra {
					try(s)
					try("-" + s)
				}
				return
			}
			var rec func(s string)
			rec = func(s string) {
				if c.Done() {
					return
				}
				try(s)
				if len(s) >= maxLen {
					return
				}
				for i := 0; i < len(A); i++ {
					rec(s + string(A[i]))
				}
			}
			rec(string(A[u]))
		},
	}
}

const parseAlphabet = "019._epxbo-+In"

func parseLayers(j judge, tier string) []Layer {
	thorough := tier == "thorough"
	var layers []Layer
	if j == judgeValue {
		maxLen := 6
		if thorough {
			maxLen = 7
		}
		A := parseAlphabet
		layers = append(layers, Layer{
			Name:   "A1-all-short-strings",
			Units:  len(A)*len(A) + len(A) + 1,
			Bounds: fmt.Sprintf("every string of length 0..%d over the 14 symbols %q × bases {0,2,8,10,16}: accept/reject, detected base, value against the reference grammar/evaluator; accept set and base compared with math/big Float.Parse; receiver precision 0 (→34) in ToNearestEven and precision 2 in ToNegativeInf; every accepted string also through SetString/UnmarshalText/Sscan/Parse into fresh, previously-inexact and dirty receivers and through ParseDecimal", maxLen, A),
			Run: func(c *Ctx, u int) {
				var prefix string
				switch {
				case u == 0:
					prefix = ""
				case u <= len(A):
					prefix = string(A[u-1])
				default:
					v := u - len(A) - 1
					prefix = string(A[v/len(A)]) + string(A[v%len(A)])
				}
				var rec func(s string)
				rec = func(s string) {
					if c.Done() {
						return
					}
					for _, b := range parseBases {
						parseCase(c, j, s, b, 0, ToNearestEven, true)
						parseCase(c, j, s, b, 2, ToNegativeInf, false)
					}
					otherEntryPoints(c, s, 2, ToNegativeInf, true) // accepted strings through every entry point and receiver kind
					if len(prefix) < 2 || len(s) >= maxLen {
						return
					}
					for i := 0; i < len(A); i++ {
						rec(s + string(A[i]))
					}
				}
				rec(prefix)
			},
		})
		// Inf spellings and their one-edit neighbours
		var infs []string
		seen := map[string]bool{}
		for _, base := range []string{"Inf", "inf", "+Inf", "-Inf", "+inf", "-inf"} {
			cand := []string{base, strings.ToUpper(base), base + "f", base + " ", " " + base, base + "inity"}
			for i := 0; i < len(base); i++ {
				cand = append(cand, base[:i]+base[i+1:])
				for _, ch := range "iInNfF+-0_." {
					cand = append(cand, base[:i]+string(ch)+base[i+1:], base[:i]+string(ch)+base[i:])
				}
			}
			for _, s := range cand {
				if !seen[s] {
					seen[s] = true
					infs = append(infs, s)
				}
			}
		}
		layers = append(layers, Layer{
			Name:   "A2-inf-spellings",
			Units:  1,
			Bounds: fmt.Sprintf("%d strings: the spellings of [+-]Inf/inf and all their one-edit neighbours × 5 bases", len(infs)),
			Run: func(c *Ctx, u int) {
				for _, s := range infs {
					for _, b := range parseBases {
						parseCase(c, j, s, b, 5, ToZero, true)
					}
					otherEntryPoints(c, s, 5, ToZero, false)
				}
			},
		})
	}
	// B: structured decimal literals
	{
		var digs []string
		k := 2
		J := 20
		if thorough {
			k, J = 3, 45
		}
		for _, cf := range DCoefs(k) {
			digs = append(digs, strconv.FormatInt(cf, 10))
		}
		digs = append(digs, RunLengthStrings(J)...)
		precs := []uint32{0, 1, 2, 3, 4, 5, 19, 20, 38}
		exps := []string{"", "e0", "e1", "e-1", "E+7", "e-40", "e40", "e19", "e-19"}
		layers = append(layers, Layer{
			Name:   "B1-structured-decimal",
			Units:  len(digs),
			Bounds: fmt.Sprintf("%d digit strings (D(%d) ∪ run-length ties/near-ties/all-nines up to %d digits) × radix point at every position × leading/trailing zeros × optional '_' separators × sign × exponents %v × receiver precision %v × 6 modes; base 0 and base 10", len(digs), k, J+3, exps, precs),
			Run: func(c *Ctx, u int) {
				ds := digs[u]
				for pos := 0; pos <= len(ds); pos++ {
					var forms []string
					switch {
					case pos == 0:
						forms = []string{"." + ds, "0." + ds, "00.000" + ds}
					case pos == len(ds):
						forms = []string{ds, ds + ".", ds + ".000", "0" + ds, ds + "000"}
					default:
						forms = []string{ds[:pos] + "." + ds[pos:], "0" + ds[:pos] + "." + ds[pos:] + "0"}
						if pos > 1 {
							forms = append(forms, ds[:1]+"_"+ds[1:pos]+"."+ds[pos:])
						}
					}
					for fi, f := range forms {
						for ei, e := range exps {
							if c.Done() {
								return
							}
							s := f + e
							if (fi+ei)%2 == 1 {
								s = "-" + s
							} else if (fi+ei)%5 == 0 {
								s = "+" + s
							}
							base := 0
							if !strings.Contains(s, "_") && (fi+ei)%3 == 0 {
								base = 10
							}
							for _, p := range precs {
								for _, m := range M6 {
									parseCase(c, j, s, base, p, m, false)
								}
							}
							if j == judgeValue && ei == 0 {
								otherEntryPoints(c, s, 3, ToPositiveInf, false)
							}
						}
					}
				}
			},
		})
		// exponent extremes
		bigExps := []string{"2147483646", "2147483647", "2147483648", "2147483649", "-2147483647", "-2147483648", "-2147483649", "-2147483650", "9223372036854775807", "9223372036854775808", "-9223372036854775808", "-9223372036854775809", "99999999999999999999999999999999999999", "-99999999999999999999999999999999999999", "0000000000000000000000000000000000000005", "2_147_483_647", "21474836_46",
			// exponents that are small again modulo 2^32 / 2^64
			"4294967297", "-4294967297", "4294967296", "18446744073709551616", "18446744073709551617", "-18446744073709551617", "36893488147419103235", "18446744073709551620", "340282366920938463463374607431768211457"}
		mants := []string{"1", "9", "0.1", "0.09", "10", "99.9", "0.0001", "100000", "0", "0.0", "9.99", "123456789012345678901234567890"}
		layers = append(layers, Layer{
			Name:   "B2-exponent-extremes",
			Units:  len(bigExps),
			Bounds: fmt.Sprintf("mantissas %v × exponents at ±(2^31-2 … 2^31+2), ±2^63 neighbourhood, 38-digit exponents, leading zeros, separators × precision {0,1,2,40} × 6 modes: accepted iff the adjusted exponent fits int32, then correctly rounded incl. overflow to ±Inf by rounding", mants),
			Run: func(c *Ctx, u int) {
				for _, mt := range mants {
					for _, sg := range []string{"", "-"} {
						for _, el := range []string{"e", "E"} {
							s := sg + mt + el + bigExps[u]
							for _, p := range []uint32{0, 1, 2, 40} {
								for _, m := range M6 {
									parseCase(c, j, s, 0, p, m, false)
								}
							}
							if !strings.Contains(s, "_") {
								parseCase(c, j, s, 10, 3, ToZero, false)
							}
						}
					}
				}
			},
		})
	}
	// B3: long sparse literals: a far-away non-zero digit must still act as sticky
	{
		precs := []uint32{1, 2, 19, 20, 34, 38, 57}
		layers = append(layers, Layer{
			Name:   "B3-long-sparse",
			Units:  len(precs),
			Bounds: "literals of prec digits (last kept digit even/odd) + rounding digit in {0,5,9} + j zeros (j = 0..100) + one non-zero digit, radix point after the first digit or none, precision in {1,2,19,20,34,38,57} × 6 modes: a digit up to 100 places below the rounding position must still be seen",
			Run: func(c *Ctx, u int) {
				p := precs[u]
				for _, last := range []string{"2", "3", "9"} {
					head := strings.Repeat("1", int(p)-1) + last
					if last == "9" {
						head = strings.Repeat("9", int(p))
					}
					for _, rd := range []string{"0", "5", "9", "4"} {
						for jz := 0; jz <= 100; jz++ {
							if c.Done() {
								return
							}
							for _, tail := range []string{"1", ""} {
								ds := head + rd + strings.Repeat("0", jz) + tail
								for _, s := range []string{ds, ds[:1] + "." + ds[1:] + "e-7", "-0.00" + ds} {
									for _, m := range M6 {
										parseCase(c, j, s, 0, p, m, false)
									}
								}
							}
						}
					}
				}
			},
		})
	}
	// B5: long dense literals: n 19-digit groups (+ a partial group) with one group replaced by zeros or
	// nines at every group index
	{
		ns := []int{3, 4, 5, 8, 9, 16, 17}
		layers = append(layers, Layer{
			Name:   "B5-long-dense",
			Units:  len(ns),
			Bounds: fmt.Sprintf("literals of n groups \"1234567890123456789\" (n in %v) + a partial group of 0, 1 or 18 digits, one group replaced by 19 zeros / 19 nines at every index; radix point none / after digit 1 / after digit 20 / before the partial group; precision {19n−1, 19n, 19n+1, 19n+18, 40} × modes Even/ToZero/AwayFromZero; bases 0 and 10", ns),
			Run: func(c *Ctx, u int) {
				n := ns[u]
				const g = "1234567890123456789"
				for i := 0; i < n; i++ {
					for _, rep := range []string{strings.Repeat("0", 19), strings.Repeat("9", 19)} {
						if i == 0 && rep[0] == '0' {
							continue // leading zero group: B4's subject
						}
						for _, part := range []string{"", "7", "765432109876543215"} {
							if c.Done() {
								return
							}
							ds := strings.Repeat(g, i) + rep + strings.Repeat(g, n-1-i) + part
							for _, s := range []string{ds, "-" + ds[:1] + "." + ds[1:], ds[:20] + "." + ds[20:] + "e3", ds[:19*n] + "." + ds[19*n:]} {
								for _, p := range []uint32{uint32(19*n - 1), uint32(19 * n), uint32(19*n + 1), uint32(19*n + 18), 40} {
									for _, m := range []uint8{ToNearestEven, ToZero, AwayFromZero} {
										parseCase(c, j, s, 0, p, m, false)
										parseCase(c, j, s, 10, p, m, false)
									}
								}
							}
						}
					}
				}
			},
		})
	}
	// B6: integers at the binary boundaries of the machine types (a conversion that goes through
	// uint32/uint64/int64 arithmetic wraps exactly there), through every entry point
	{
		ks := []uint{7, 8, 15, 16, 24, 31, 32, 33, 53, 62, 63, 64, 65, 96, 127, 128}
		layers = append(layers, Layer{
			Name:   "B6-binary-boundary-integers",
			Units:  len(ks),
			Bounds: fmt.Sprintf("decimal literals 2^k + d for k in %v, d in -3..9, also 10·(2^k/10)+d … (last digit swept), with sign, \".0\", \"e0\", \"e-1\", leading zeros; precision {0,5,25,40} × modes Even/ToZero/AwayFromZero; Parse (bases 0 and 10) and every other entry point (SetString, UnmarshalText, JSON, Scan, ParseDecimal) into fresh / inexact / dirty receivers", ks),
			Run: func(c *Ctx, u int) {
				b := new(big.Int).Lsh(big1, ks[u])
				for d := int64(-3); d <= 9; d++ {
					n := new(big.Int).Add(b, big.NewInt(d)).String()
					for _, s := range []string{n, "-" + n, "+" + n, n + ".0", n + "e0", n + "e-1", "00" + n, n[:len(n)-1] + "." + n[len(n)-1:]} {
						if c.Done() {
							return
						}
						for _, p := range []uint32{0, 5, 25, 40} {
							for _, m := range []uint8{ToNearestEven, ToZero, AwayFromZero} {
								parseCase(c, j, s, 0, p, m, false)
								parseCase(c, j, s, 10, p, m, false)
							}
							if j == judgeValue {
								otherEntryPoints(c, s, p, ToNearestEven, false)
							}
						}
					}
				}
			},
		})
	}
	// B4: groups of zeros inside the digit string (the base-10 scanner works in 19-digit groups)
	{
		tails := []string{"", "1", "123", "1000000000000000000", "9999999999999999999", "12345678901234567890", "10000000000000000000000000000000000001", "1000000000000000000000000000000000000"}
		layers = append(layers, Layer{
			Name:   "B4-zero-groups",
			Units:  61,
			Bounds: fmt.Sprintf("literals z zeros + tail for z = 0..60 and %d tails (empty, 1–38 digits, ending in zero groups), radix point at every position that is a multiple of 19 ± 1, at both ends and after the zeros, sign, optional exponent, bases 0 and 10, precision {0,1,19,20,38} × modes Even/ToZero/ToPositiveInf: zero groups at the front, in the middle and at the end of the 19-digit grouping", len(tails)),
			Run: func(c *Ctx, u int) {
				z := strings.Repeat("0", u)
				for _, tl := range tails {
					ds := z + tl
					if ds == "" {
						continue
					}
					pos := map[int]bool{-1: true, 0: true, len(ds): true, u: true}
					for k := 18; k <= len(ds)+1; k += 19 {
						for d := 0; d <= 2; d++ {
							if k+d <= len(ds) {
								pos[k+d] = true
							}
						}
					}
					for pt := range pos {
						lit := ds
						if pt >= 0 {
							lit = ds[:pt] + "." + ds[pt:]
						}
						for _, sg := range []string{"", "-"} {
							for _, ex := range []string{"", "e5", "e-19"} {
								if c.Done() {
									return
								}
								s := sg + lit + ex
								for _, base := range []int{0, 10} {
									for _, p := range []uint32{0, 1, 19, 20, 38} {
										for _, m := range []uint8{ToNearestEven, ToZero, ToPositiveInf} {
											parseCase(c, j, s, base, p, m, false)
										}
									}
								}
							}
						}
					}
				}
			},
		})
	}
	if j == judgeValue {
		// C: binary-flavoured literals
		type bm struct {
			prefix string
			base   int
			digits string
		}
		var ms []bm
		for _, hx := range []string{"1", "f", "8", "1.8", "f.f", "0.1", "fff", "abc.def", "1.000000000001", "7.ff8", "0.0000000000000000000000001", "40000000", "c0000000", "1.80000000", "18000000000000000000000", "100000000000000000000000000000000"} { // the last five: many trailing zero bits (representable despite a large negative exponent)
			ms = append(ms, bm{"0x", 16, hx})
		}
		for _, oc := range []string{"1", "7", "7.7", "0.01", "1234567"} {
			ms = append(ms, bm{"0o", 8, oc})
		}
		for _, bn := range []string{"1", "1.1", "0.0001", "101010101010", "1.11111111111"} {
			ms = append(ms, bm{"0b", 2, bn})
		}
		for _, dc := range []string{"1", "3", "1.5", "0.1", "12345.6789"} {
			ms = append(ms, bm{"", 10, dc})
		}
		var bexps []int64
		for e := int64(-1100); e <= 1100; e++ {
			if thorough || e%7 == 0 || abs64(e) < 70 || abs64(abs64(e)-1074) < 4 || abs64(abs64(e)-1023) < 3 {
				bexps = append(bexps, e)
			}
		}
		layers = append(layers, Layer{
			Name:   "C1-binary-literals",
			Units:  len(ms),
			Bounds: fmt.Sprintf("%d mantissas in base 16/8/2 (prefix form with base 0, bare form with explicit base) and decimal mantissas, with 'p' exponents %d values in -1100..1100 and (base 2/8) 'e' exponents; precision {5,17,34,400,800}; modes Even/ToZero/ToPositiveInf: exact when representable, else within 1 ulp", len(ms), len(bexps)),
			Run: func(c *Ctx, u int) {
				m := ms[u]
				for _, e := range bexps {
					if c.Done() {
						return
					}
					for _, sg := range []string{"", "-"} {
						s := sg + m.prefix + m.digits + "p" + strconv.FormatInt(e, 10)
						for _, p := range []uint32{5, 17, 34, 400, 800} {
							for _, md := range []uint8{ToNearestEven, ToZero, ToPositiveInf} {
								parseCase(c, j, s, 0, p, md, false)
								if m.base != 10 || true {
									parseCase(c, j, sg+m.digits+"p"+strconv.FormatInt(e, 10), m.base, p, md, false)
								}
							}
						}
						if m.base == 2 || m.base == 8 {
							if e%10 == 0 && abs64(e) <= 300 {
								parseCase(c, j, sg+m.prefix+m.digits+"e"+strconv.FormatInt(e/10, 10), 0, 34, ToNearestEven, false)
							}
						}
					}
				}
				// no exponent at all
				for _, p := range []uint32{0, 5, 60} {
					parseCase(c, j, m.prefix+m.digits, 0, p, ToNearestEven, true)
					parseCase(c, j, m.digits, m.base, p, ToNearestEven, true)
				}
			},
		})
		// C2: receivers whose precision attribute is at the top of the uint32 range (working precisions
		// derived from it must not wrap); only literals whose binary exponent is non-negative, so that no
		// division at that precision is needed
		{
			lits := []string{"0x1p62", "0x1p113", "0x1.8p200", "1p70", "0b1p64", "0x.8p70", "0xffp300", "0o7p90", "12345p33"}
			hp := []uint32{math.MaxUint32, math.MaxUint32 - 1, math.MaxUint32 - 17, math.MaxUint32 - 18, math.MaxUint32 - 19, 1 << 31}
			layers = append(layers, Layer{
				Name:   "C2-binary-exponent-at-extreme-precision",
				Units:  len(lits),
				Bounds: fmt.Sprintf("literals %v (non-negative net binary exponent) × ± × receiver precision %v × modes Even/ToZero: the stored value is exact", lits, hp),
				Run: func(c *Ctx, u int) {
					for _, sg := range []string{"", "-"} {
						for _, p := range hp {
							for _, md := range []uint8{ToNearestEven, ToZero} {
								parseCase(c, j, sg+lits[u], 0, p, md, false)
							}
						}
					}
				},
			})
		}
		// C5: long mantissas that are (small odd number)·2^k, most of which the negative binary exponent
		// cancels: the value is a short decimal although mantissa and power of two are long
		{
			heads := []string{"1", "2", "4", "8", "3", "5", "c", "a8", "ff"}
			ks := []int{1, 3, 4, 5, 9, 10, 15, 16, 17, 24, 31, 32, 33, 47, 48, 62, 63, 64, 65, 80, 96, 127, 128}
			if tier == "thorough" {
				ks = ks[:0]
				for k := 1; k <= 200; k++ {
					ks = append(ks, k)
				}
			}
			layers = append(layers, Layer{
				Name:   "C5-long-mantissa-cancelled-by-exponent",
				Units:  len(heads) * len(ks),
				Bounds: fmt.Sprintf("hex literals (head %v)(k zero digits), k ∈ %d values up to %d, with p-exponents −4k−44 … −4k+8 (the value is head·2^e, |e| small) and octal/binary analogues; precision {7,19,34,60}; modes Even/AwayFromZero/ToNegativeInf; ±: exact when representable, else within 1 ulp", heads, len(ks), ks[len(ks)-1]),
				Run: func(c *Ctx, u int) {
					h, k := heads[u/len(ks)], ks[u%len(ks)]
					for e := -44; e <= 8; e++ {
						if c.Done() {
							return
						}
						for _, sg := range []string{"", "-"} {
							for _, p := range []uint32{7, 19, 34, 60} {
								for _, md := range []uint8{ToNearestEven, AwayFromZero, ToNegativeInf} {
									parseCase(c, j, sg+"0x"+h+strings.Repeat("0", k)+"p"+strconv.Itoa(-4*k+e), 0, p, md, false)
									if len(h) == 1 && h[0] <= '7' {
										parseCase(c, j, sg+"0o"+h+strings.Repeat("0", k)+"p"+strconv.Itoa(-3*k+e), 0, p, md, false)
									}
									if h == "1" {
										parseCase(c, j, sg+"0b1"+strings.Repeat("0", 4*k)+"p"+strconv.Itoa(-4*k+e), 0, p, md, false)
									}
								}
							}
						}
					}
				},
			})
		}
		// C5b/C7b: the same two cancellations with binary exponents of tens of thousands (the exact power of two
		// has 10^4 digits and more: size estimates for that temporary, long conversions)
		{
			type big2 struct {
				neg bool // negative exponent cancelling zero digits (C5) / positive exponent on a multiple of 5^k (C7)
				k   int
			}
			var us []big2
			for _, k := range []int{2100, 8340, 8360, 16690, 17500, 33400} {
				us = append(us, big2{true, k})
			}
			for _, k := range []int{8000, 33300, 33500, 66800, 70000} {
				us = append(us, big2{false, k})
			}
			layers = append(layers, Layer{
				Name:   "C5b-C7b-cancellation-with-huge-binary-exponents",
				Units:  len(us),
				Bounds: "hex literals (head in {1, 3, a8})(k zero digits) p(−4k+e) for k in {2100, 8340, 8360, 16690, 17500, 33400}, and (h·5^k in hex) p(k+e) for h in {1, 7}, k in {8000, 33300, 33500, 66800, 70000}; e in {−9, −4, 0, 4}; precision {7, 34}; modes Even/ToZero/AwayFromZero: exact when representable, else within 1 ulp",
				Run: func(c *Ctx, u int) {
					var lits []string
					if us[u].neg {
						for _, h := range []string{"1", "3", "a8"} {
							for _, e := range []int{-9, -4, 0, 4} {
								lits = append(lits, "0x"+h+strings.Repeat("0", us[u].k)+"p"+strconv.Itoa(-4*us[u].k+e))
							}
						}
					} else {
						for _, h := range []int64{1, 7} {
							mant := new(big.Int).Exp(big.NewInt(5), big.NewInt(int64(us[u].k)), nil)
							mant.Mul(mant, big.NewInt(h))
							for _, e := range []int{-9, -4, 0, 4} {
								lits = append(lits, "0x"+mant.Text(16)+"p"+strconv.Itoa(us[u].k+e))
							}
						}
					}
					for _, lit := range lits {
						for _, p := range []uint32{7, 34} {
							for _, md := range []uint8{ToNearestEven, ToZero, AwayFromZero} {
								parseCase(c, j, lit, 0, p, md, false)
							}
						}
					}
				},
			})
		}
		// C7: mantissas that are (small number)·5^k with a positive binary exponent near k: the value is
		// (small number)·10^k·2^e, a short decimal although mantissa and power of two are long
		{
			ks := []uint{1, 5, 13, 27, 28, 40, 55, 56, 64, 82, 83, 100, 128, 200, 300}
			if tier == "thorough" {
				ks = ks[:0]
				for k := uint(1); k <= 400; k++ {
					ks = append(ks, k)
				}
			}
			heads := []int64{1, 3, 7, 12345}
			layers = append(layers, Layer{
				Name:   "C7-powers-of-five-cancelled-by-exponent",
				Units:  len(ks) * len(heads),
				Bounds: fmt.Sprintf("literals (h·5^k in hexadecimal / octal / binary / decimal digits) p (k+e) for h in %v, k in %d values up to %d, e in -6..40: the value is h·10^k·2^e; precision {1,7,19,34,60}; modes Even/ToZero/AwayFromZero; ±: exact when representable, else within 1 ulp", heads, len(ks), ks[len(ks)-1]),
				Run: func(c *Ctx, u int) {
					h, k := heads[u/len(ks)], ks[u%len(ks)]
					mant := new(big.Int).Exp(big.NewInt(5), big.NewInt(int64(k)), nil)
					mant.Mul(mant, big.NewInt(h))
					for e := -6; e <= 40; e++ {
						if c.Done() {
							return
						}
						ex := strconv.Itoa(int(k) + e)
						for _, sg := range []string{"", "-"} {
							for _, p := range []uint32{1, 7, 19, 34, 60} {
								for _, md := range []uint8{ToNearestEven, ToZero, AwayFromZero} {
									parseCase(c, j, sg+"0x"+mant.Text(16)+"p"+ex, 0, p, md, false)
									if e%4 == 0 {
										parseCase(c, j, sg+"0o"+mant.Text(8)+"p"+ex, 0, p, md, false)
										parseCase(c, j, sg+mant.Text(10)+"p"+ex, 0, p, md, false)
										parseCase(c, j, sg+mant.Text(2)+"p"+ex, 2, p, md, false)
									}
								}
							}
						}
					}
				},
			})
		}
		// C8: every byte value 0..255 at every position of a few literals, and a corpus of words that other
		// syntaxes treat specially: accepted or rejected exactly as math/big's Float does, through Parse,
		// SetString and UnmarshalText (a rejecting UnmarshalText returns an error)
		{
			lits := []string{"1", "12", "1.5", "0x1p0", "2.5e3", "-7", "0b11", "1_0"}
			words := []string{"null", "nil", "NULL", "Null", "NaN", "nan", "true", "false", "Infinity", "infinity", "inf", "Inf", "+inf", "-Inf", "+Inf", "INF", "∞", "", " ", "0x", "e1", "p1", "0e", "--1", "+-1", "1e1__0", "1e1_0", "1__0", "0_x1", "0x_1", "0X1P+1", "1E+1", "1.e1", ".e1", "0.", ".0", "0b", "0o", "0B1", "0O7"}
			layers = append(layers, Layer{
				Name:   "C8-every-byte-and-special-words",
				Units:  len(lits) + 1,
				Bounds: fmt.Sprintf("each of the 256 byte values inserted at, and substituted for, every position of %q; and %d words (null, nil, NaN, true, Infinity, inf spellings, empty, dangling prefixes / exponents / separators): Parse(s, 0), SetString and UnmarshalText accept exactly what big.Float's Parse / SetString / UnmarshalText accept, with the same value", lits, len(words)),
				Run: func(c *Ctx, u int) {
					one := func(s string) {
						if c.Skip() {
							return
						}
						c.NonTrivial()
						f := new(big.Float).SetPrec(300)
						_, _, ferr := f.Parse(s, 0)
						z := buildPre(preInexact, 40, ToNearestEven)
						var zerr error
						pv, _ := protect(func() { _, _, zerr = z.Parse(s, 0) })
						key := fmt.Sprintf("Parse(%q, 0)", s)
						if pv != nil {
							c.Fail(key, fmt.Sprintf("panic: %v", pv))
							return
						}
						if (ferr == nil) != (zerr == nil) {
							c.Fail(key, fmt.Sprintf("Decimal err=%v, big.Float err=%v", zerr, ferr))
							return
						}
						f2 := new(big.Float).SetPrec(300)
						ferr2 := f2.UnmarshalText([]byte(s))
						z2 := buildPre(preLonger, 40, ToNearestEven)
						before := Observe(z2)
						var zerr2 error
						pv, _ = protect(func() { zerr2 = z2.UnmarshalText([]byte(s)) })
						if pv != nil {
							c.Fail("UnmarshalText "+key, fmt.Sprintf("panic: %v", pv))
						} else if (ferr2 == nil) != (zerr2 == nil) {
							c.Fail("UnmarshalText "+key, fmt.Sprintf("Decimal err=%v (receiver %s -> %s), big.Float err=%v", zerr2, before, Observe(z2), ferr2))
						} else if msg := Canonical(Observe(z2)); msg != "" {
							c.Fail("UnmarshalText "+key, "receiver malformed: "+msg)
						}
						_, fok := new(big.Float).SetPrec(300).SetString(s)
						z3 := fresh(40, ToNearestEven)
						var zok bool
						pv, _ = protect(func() { _, zok = z3.SetString(s) })
						if pv != nil || fok != zok {
							c.Fail("SetString "+key, fmt.Sprintf("panic %v; Decimal ok=%v, big.Float ok=%v", pv, zok, fok))
						}
						if zerr == nil && ferr == nil && !f.IsInf() {
							ex := exactOfBigFloat(f)
							if o := Observe(z); o.Form == fFinite && f.Acc() == big.Exact && !o.Val().Equal(ex) {
								// (decimal fractions are not exact in binary: only compared when big.Float parsed exactly)
								if r := RoundVal(ex, 40, ToNearestEven); !matchValue(o, r) {
									c.Fail(key, fmt.Sprintf("Decimal parsed %s, big.Float parsed %s", o.Val(), ex))
								}
							}
						}
					}
					if u == len(lits) {
						for _, w := range words {
							one(w)
						}
						return
					}
					l := lits[u]
					for pos := 0; pos <= len(l); pos++ {
						for b := 0; b < 256; b++ {
							one(l[:pos] + string([]byte{byte(b)}) + l[pos:])
							if pos < len(l) {
								one(l[:pos] + string([]byte{byte(b)}) + l[pos+1:])
							}
						}
					}
				},
			})
		}
		// C3: fmt.Scanner entry point on input containing non-ASCII runes: same verdict and value as math/big's Float
		{
			bases := []string{"15", "1.5", "1e5", "0x1f", "-2.25e2", "1_000", "0b101", "7"} // all exactly representable in binary
			// runes whose low byte is a character of the number grammar
			var runes []rune
			for _, lo := range "0123456789.eEpPxXbBoO_+-" {
				runes = append(runes, 0x100+lo, 0x2000+lo, 0x600+lo)
			}
			runes = append(runes, 'é', '€', '١', 'ı', '℮', 'Ÿ', 0x1F600)
			layers = append(layers, Layer{
				Name:   "C3-scan-non-ascii",
				Units:  len(bases),
				Bounds: fmt.Sprintf("fmt.Sscan of %d literals with one of %d non-ASCII runes (every rune whose low byte is a character of the number grammar in three Unicode blocks, plus letters, digits of other scripts, an emoji) inserted at every position: success/failure and value identical to fmt.Sscan into a *big.Float", len(bases), len(runes)),
				Run: func(c *Ctx, u int) {
					b := bases[u]
					for pos := 0; pos <= len(b); pos++ {
						for _, r := range runes {
							if c.Skip() {
								continue
							}
							s := b[:pos] + string(r) + b[pos:]
							z := fresh(40, ToNearestEven)
							f := new(big.Float).SetPrec(200)
							var n1, n2 int
							var e1, e2 error
							pv, _ := protect(func() { n1, e1 = fmt.Sscan(s, z) })
							n2, e2 = fmt.Sscan(s, f)
							key := fmt.Sprintf("Sscan(%q)", s)
							c.NonTrivial()
							if pv != nil {
								c.Fail(key, fmt.Sprintf("panic: %v", pv))
								continue
							}
							if (e1 == nil) != (e2 == nil) || n1 != n2 {
								c.Fail(key, fmt.Sprintf("Decimal: n=%d err=%v; big.Float: n=%d err=%v", n1, e1, n2, e2))
								continue
							}
							if e1 == nil {
								ex := exactOfBigFloat(f)
								if o := Observe(z); o.Form != ex.Form || o.Neg != ex.Neg || (o.Form == fFinite && !o.Val().Equal(ex)) {
									c.Fail(key, fmt.Sprintf("Decimal scanned %s, big.Float scanned %s", o.Val(), ex))
								}
							}
							if msg := Canonical(Observe(z)); msg != "" {
								c.Fail(key, "receiver malformed: "+msg)
							}
						}
					}
				},
			})
		}
		// C6: white space and several operands: fmt hands the Scanner the input with leading space still in
		// place, and the second operand of Sscan starts at the blank after the first
		{
			texts := []string{"1.5", "-2.25", "0x10", "1e3", "+Inf", "7", "0b101", "1_000.5"}
			seps := []string{" ", "  ", "\t", "\n", " \t ", "\r\n"}
			layers = append(layers, Layer{
				Name:   "C6-scan-white-space-and-several-operands",
				Units:  len(texts),
				Bounds: fmt.Sprintf("fmt.Sscan / Sscanln / Fscan of two and three operands taken from %d texts (all ordered pairs, separators %q), and of one operand behind leading white space / followed by trailing white space: item count, error and values identical to the same call with *big.Float operands", len(texts), seps),
				Run: func(c *Ctx, u int) {
					a := texts[u]
					cmp := func(key string, run func(args ...interface{}) (int, error)) {
						if c.Skip() {
							return
						}
						c.NonTrivial()
						zs := []*Dec{fresh(40, ToNearestEven), buildPre(preInexact, 40, ToNearestEven), fresh(40, ToNearestEven)}
						fs := []*big.Float{new(big.Float).SetPrec(200), new(big.Float).SetPrec(200), new(big.Float).SetPrec(200)}
						var n1, n2 int
						var e1, e2 error
						pv, _ := protect(func() { n1, e1 = run(zs[0], zs[1], zs[2]) })
						n2, e2 = run(fs[0], fs[1], fs[2])
						if pv != nil {
							c.Fail(key, fmt.Sprintf("panic: %v", pv))
							return
						}
						if (e1 == nil) != (e2 == nil) || n1 != n2 {
							c.Fail(key, fmt.Sprintf("Decimal: n=%d err=%v; big.Float: n=%d err=%v", n1, e1, n2, e2))
							return
						}
						for i := 0; i < n1 && i < 3; i++ {
							ex := exactOfBigFloat(fs[i])
							if o := Observe(zs[i]); o.Form != ex.Form || o.Neg != ex.Neg || (o.Form == fFinite && !o.Val().Equal(ex)) {
								c.Fail(key, fmt.Sprintf("operand %d: Decimal scanned %s, big.Float scanned %s", i, o.Val(), ex))
							}
						}
						for i := range zs {
							if msg := Canonical(Observe(zs[i])); msg != "" {
								c.Fail(key, "receiver malformed: "+msg)
							}
						}
					}
					for _, sp := range seps {
						in1 := sp + a
						cmp(fmt.Sprintf("Sscan(%q, one operand)", in1), func(args ...interface{}) (int, error) { return fmt.Sscan(in1, args[0]) })
						in2 := a + sp
						cmp(fmt.Sprintf("Sscan(%q, one operand)", in2), func(args ...interface{}) (int, error) { return fmt.Sscan(in2, args[0]) })
						cmp(fmt.Sprintf("Sscanln(%q, one operand)", in1), func(args ...interface{}) (int, error) { return fmt.Sscanln(in1, args[0]) })
						for _, b := range texts {
							in := a + sp + b
							cmp(fmt.Sprintf("Sscan(%q, two operands)", in), func(args ...interface{}) (int, error) { return fmt.Sscan(in, args[0], args[1]) })
							cmp(fmt.Sprintf("Sscanln(%q, two operands)", in), func(args ...interface{}) (int, error) { return fmt.Sscanln(in, args[0], args[1]) })
							cmp(fmt.Sprintf("Fscan(%q, two operands)", in), func(args ...interface{}) (int, error) {
								return fmt.Fscan(strings.NewReader(in), args[0], args[1])
							})
							in3 := sp + a + sp + b + " " + a
							cmp(fmt.Sprintf("Sscan(%q, three operands)", in3), func(args ...interface{}) (int, error) { return fmt.Sscan(in3, args[0], args[1], args[2]) })
							inf := a + " " + b
							cmp(fmt.Sprintf("Sscanf(%q, \"%%v %%v\")", inf), func(args ...interface{}) (int, error) { return fmt.Sscanf(inf, "%v %v", args[0], args[1]) })
						}
					}
				},
			})
		}
		// C4: fmt.Sscanf with every verb the Scanner accepts: the verb must not change how the text is read
		// (math/big's Float.Scan ignores it: the base is always detected from the text)
		{
			texts := []string{"101", "-110.01", "12.5", "0x10", "1_000", "0b11", "0o17", "1e3", "7", "0.001", "+Inf", "1p4", "0x1.8p1"}
			verbs := []string{"%v", "%b", "%e", "%E", "%f", "%F", "%g", "%G", "%x", "%X", "%s", "%d"}
			layers = append(layers, Layer{
				Name:   "C4-sscanf-verbs",
				Units:  len(texts),
				Bounds: fmt.Sprintf("fmt.Sscanf of %d texts (decimal, prefixed, separated, p-exponent, Inf) with each of the verbs %v: same success/failure, same number of items and same value as fmt.Sscanf into a *big.Float, and (on success) as Parse(text, 0)", len(texts), verbs),
				Run: func(c *Ctx, u int) {
					s := texts[u]
					for _, vb := range verbs {
						if c.Skip() {
							continue
						}
						z := fresh(40, ToNearestEven)
						f := new(big.Float).SetPrec(200)
						var n1, n2 int
						var e1, e2 error
						pv, _ := protect(func() { n1, e1 = fmt.Sscanf(s, vb, z) })
						n2, e2 = fmt.Sscanf(s, vb, f)
						key := fmt.Sprintf("Sscanf(%q, %q)", s, vb)
						c.NonTrivial()
						if pv != nil {
							c.Fail(key, fmt.Sprintf("panic: %v", pv))
							continue
						}
						if (e1 == nil) != (e2 == nil) || n1 != n2 {
							c.Fail(key, fmt.Sprintf("Decimal: n=%d err=%v; big.Float: n=%d err=%v", n1, e1, n2, e2))
							continue
						}
						if e1 == nil {
							ref := fresh(40, ToNearestEven)
							if _, _, err := ref.Parse(s, 0); err != nil {
								c.Fail(key, "Sscanf accepted a text that Parse(·, 0) rejects: "+err.Error())
							} else if a, b := Observe(z), Observe(ref); a.Form != b.Form || a.Neg != b.Neg || (a.Form == fFinite && !a.Val().Equal(b.Val())) {
								c.Fail(key, fmt.Sprintf("scanned %s, Parse(text, 0) gives %s", a.Val(), b.Val()))
							}
						}
					}
				},
			})
		}
	}
	return layers
}

func parseAccLayers(tier string) []Layer { return parseLayers(judgeAcc, tier) }

func init() {
	register(&Property{
		ID: "C12", Level: "model_checking",
		Rule: "a case is (string, base, receiver precision, mode); strings are distinct by construction; non-trivial when the literal is valid and needs rounding (decimal) or is not exactly representable (binary-flavoured); every invalid string also exercises the rejection oracle",
		Assumptions: []string{
			"reference grammar written from Parse's documentation (mc/parse.go refLit); accept set and detected base additionally compared with math/big Float.Parse for every short string",
			"binary exponents are limited to ±1100 (no saturation of either library); decimal exponents up to the int64 limits",
			"fmt.Sscan is only required to agree on literals that Parse accepts and that contain no blanks",
		},
		Layers: func(tier string) []Layer { return parseLayers(judgeValue, tier) },
	})
}
