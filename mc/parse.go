package main

func parseAccLayers(tier string) []Layer { return nil }
