package main

// Reference model: exact values as (sign, integer coefficient, power of ten),
// rounding by integer division. Uses nothing from the repository.

import (
	"fmt"
	"math"
	"math/big"
	"os"
	"sync"
)

const (
	MinExp = math.MinInt32
	MaxExp = math.MaxInt32
	DW     = 19
)

const (
	fZero   = 0
	fFinite = 1
	fInf    = 2
)

// rounding modes, numerically equal to decimal.RoundingMode
const (
	ToNearestEven = 0
	ToNearestAway = 1
	ToZero        = 2
	AwayFromZero  = 3
	ToNegativeInf = 4
	ToPositiveInf = 5
)

var modeNames = []string{"ToNearestEven", "ToNearestAway", "ToZero", "AwayFromZero", "ToNegativeInf", "ToPositiveInf"}

var (
	bigB   = new(big.Int).SetUint64(10000000000000000000)
	big0   = big.NewInt(0)
	big1   = big.NewInt(1)
	big2   = big.NewInt(2)
	big10  = big.NewInt(10)
	p10mu  sync.Mutex
	p10tab = []*big.Int{big.NewInt(1)}
	p10big []p10entry
)

type p10entry struct {
	n int64
	v *big.Int
}

// p10 returns 10^n (n >= 0); the result is shared and must not be modified.
func p10(n int64) *big.Int {
	if n < 0 {
		panic("p10: negative")
	}
	p10mu.Lock()
	defer p10mu.Unlock()
	if n > 5000 {
		// large powers (far-apart additive operands): small cache; a miss next to a
		// cached power costs one multiplication instead of a full exponentiation
		for _, e := range p10big {
			if e.n == n {
				return e.v
			}
		}
		var v *big.Int
		for _, e := range p10big {
			if d := n - e.n; d > 0 && d < int64(len(p10tab)) {
				v = new(big.Int).Mul(e.v, p10tab[d])
				break
			} else if d < 0 && -d < int64(len(p10tab)) {
				v = new(big.Int).Quo(e.v, p10tab[-d])
				break
			}
		}
		if v == nil {
			v = new(big.Int).Exp(big10, big.NewInt(n), nil)
		}
		if len(p10big) >= 12 {
			p10big = p10big[1:]
		}
		p10big = append(p10big, p10entry{n, v})
		return v
	}
	for int64(len(p10tab)) <= n {
		p10tab = append(p10tab, new(big.Int).Mul(p10tab[len(p10tab)-1], big10))
	}
	return p10tab[n]
}

// ndigits returns the number of decimal digits of x > 0.
func ndigits(x *big.Int) int64 {
	if x.Sign() <= 0 {
		panic("ndigits: x <= 0")
	}
	bl := x.BitLen()
	d := int64(float64(bl-1)*0.30102999566398120) + 1
	for x.Cmp(p10(d)) >= 0 {
		d++
	}
	for d > 1 && x.Cmp(p10(d-1)) < 0 {
		d--
	}
	return d
}

// Val is an exact value: ±Coef×10^E10 (finite, Coef > 0), ±0 or ±Inf.
type Val struct {
	Form int8
	Neg  bool
	Coef *big.Int
	E10  int64
}

func (v Val) String() string {
	s := ""
	if v.Neg {
		s = "-"
	}
	switch v.Form {
	case fZero:
		return s + "0"
	case fInf:
		return s + "Inf"
	}
	return fmt.Sprintf("%s%se%d", s, v.Coef.String(), v.E10)
}

// Norm strips trailing zero digits of the coefficient.
func (v Val) Norm() Val {
	if v.Form != fFinite {
		return Val{Form: v.Form, Neg: v.Neg}
	}
	c := new(big.Int).Set(v.Coef)
	e := v.E10
	var r big.Int
	q := new(big.Int)
	// strip in chunks of 19 then single digits
	for {
		q.QuoRem(c, bigB, &r)
		if r.Sign() != 0 || q.Sign() == 0 {
			break
		}
		c, q = q, c
		e += 19
	}
	for {
		q.QuoRem(c, big10, &r)
		if r.Sign() != 0 {
			break
		}
		c, q = q, c
		e++
	}
	return Val{Form: fFinite, Neg: v.Neg, Coef: c, E10: e}
}

// Exp returns the decimal exponent e such that |v| = 0.d… × 10^e.
func (v Val) Exp() int64 { return ndigits(v.Coef) + v.E10 }

func (v Val) Equal(w Val) bool {
	if v.Form != w.Form || v.Neg != w.Neg {
		return false
	}
	if v.Form != fFinite {
		return true
	}
	a, b := v.Norm(), w.Norm()
	return a.E10 == b.E10 && a.Coef.Cmp(b.Coef) == 0
}

// CmpMag compares |v| and |w| for finite values.
func cmpMag(v, w Val) int {
	ev, ew := v.Exp(), w.Exp()
	if ev != ew {
		if ev < ew {
			return -1
		}
		return 1
	}
	// align
	a, b := v.Coef, w.Coef
	switch {
	case v.E10 > w.E10:
		a = new(big.Int).Mul(a, p10(v.E10-w.E10))
	case v.E10 < w.E10:
		b = new(big.Int).Mul(b, p10(w.E10-v.E10))
	}
	return a.Cmp(b)
}

// CmpVal compares two values on the extended real line (-0 == +0).
func CmpVal(v, w Val) int {
	ord := func(x Val) int {
		m := 0
		switch x.Form {
		case fFinite:
			m = 1
		case fInf:
			m = 2
		}
		if x.Neg {
			m = -m
		}
		return m
	}
	a, b := ord(v), ord(w)
	if a != b {
		if a < b {
			return -1
		}
		return 1
	}
	switch a {
	case 1:
		return cmpMag(v, w)
	case -1:
		return cmpMag(w, v)
	}
	return 0
}

// RRes is the model's expected result of a rounding operation.
type RRes struct {
	Form int8
	Neg  bool
	Coef *big.Int // exactly prec digits when finite (or fewer when exact and shorter)
	E10  int64
	Acc  int8
	NaN  bool // operation must panic with ErrNaN
}

func (r RRes) Val() Val { return Val{Form: r.Form, Neg: r.Neg, Coef: r.Coef, E10: r.E10} }

func (r RRes) String() string {
	if r.NaN {
		return "ErrNaN"
	}
	return fmt.Sprintf("%s acc=%d", r.Val().String(), r.Acc)
}

func accOf(above bool) int8 {
	if above {
		return 1
	}
	return -1
}

// Prep is the mode-independent part of a rounding: floor to prec digits.
type Prep struct {
	Q       *big.Int // floor of |value| scaled to exactly prec digits (or all digits if exact & shorter)
	E       int64    // |value| ≈ Q × 10^E
	Inexact bool
	Half    int  // sign(2·rem − den): <0 below half, 0 tie, >0 above half
	QOdd    bool // last kept digit is odd
	Prec    int64
	ExpEx   int64 // decimal exponent of the exact value
}

// PrepRat floors num/den × 10^e10 (num, den > 0; den may be nil for 1) to prec digits.
func PrepRat(num, den *big.Int, e10 int64, prec uint32) Prep {
	p := int64(prec)
	if p <= 0 {
		panic("PrepRat: prec == 0")
	}
	var q, r, d *big.Int
	var e int64
	if den == nil || (den.IsInt64() && den.Int64() == 1) {
		dn := ndigits(num)
		if dn <= p {
			return Prep{Q: num, E: e10, Prec: p, ExpEx: dn + e10, QOdd: num.Bit(0) == 1 && dn == p}
		}
		d = p10(dn - p)
		q, r = new(big.Int).QuoRem(num, d, new(big.Int))
		e = e10 + (dn - p)
	} else {
		dn, dd := ndigits(num), ndigits(den)
		s := p - (dn - dd)
		n, dv := num, den
		if s >= 0 {
			n = new(big.Int).Mul(num, p10(s))
		} else {
			dv = new(big.Int).Mul(den, p10(-s))
		}
		q, r = new(big.Int).QuoRem(n, dv, new(big.Int))
		d = dv
		e = e10 - s
		if ndigits(q) == p+1 {
			last := new(big.Int)
			q.QuoRem(q, big10, last)
			// remainder fraction = (last*d + r)/(10*d)
			r = new(big.Int).Add(new(big.Int).Mul(last, d), r)
			d = new(big.Int).Mul(d, big10)
			e++
		}
		if ndigits(q) != p {
			panic(fmt.Sprintf("PrepRat: internal: q has %d digits, want %d", ndigits(q), p))
		}
	}
	pr := Prep{Q: q, E: e, Prec: p, ExpEx: ndigits(q) + e}
	if r.Sign() != 0 {
		pr.Inexact = true
		pr.Half = new(big.Int).Lsh(r, 1).Cmp(d)
	}
	pr.QOdd = q.Bit(0) == 1
	return pr
}

// Apply finishes the rounding for a sign and mode, including the range rule.
func (p Prep) Apply(neg bool, mode uint8) RRes {
	if p.ExpEx < MinExp {
		return RRes{Form: fZero, Neg: neg, Acc: accOf(neg)}
	}
	if p.ExpEx > MaxExp {
		return RRes{Form: fInf, Neg: neg, Acc: accOf(!neg)}
	}
	if !p.Inexact {
		return RRes{Form: fFinite, Neg: neg, Coef: p.Q, E10: p.E, Acc: 0}
	}
	inc := false
	switch mode {
	case ToNearestEven:
		inc = p.Half > 0 || (p.Half == 0 && p.QOdd)
	case ToNearestAway:
		inc = p.Half >= 0
	case ToZero:
	case AwayFromZero:
		inc = true
	case ToNegativeInf:
		inc = neg
	case ToPositiveInf:
		inc = !neg
	default:
		panic("bad mode")
	}
	acc := accOf(inc != neg)
	q, e := p.Q, p.E
	if inc {
		q = new(big.Int).Add(q, big1)
		if q.Cmp(p10(p.Prec)) == 0 {
			q = p10(p.Prec - 1)
			e++
			if p.Prec+e > MaxExp {
				return RRes{Form: fInf, Neg: neg, Acc: acc}
			}
		}
	}
	return RRes{Form: fFinite, Neg: neg, Coef: q, E10: e, Acc: acc}
}

// RoundVal rounds an exact value.
func RoundVal(v Val, prec uint32, mode uint8) RRes {
	if v.Form != fFinite {
		return RRes{Form: v.Form, Neg: v.Neg}
	}
	return PrepRat(v.Coef, nil, v.E10, prec).Apply(v.Neg, mode)
}

// ---- exact arithmetic on Vals (finite operands) ----

func align(x, y Val) (a, b *big.Int, e int64) {
	a, b = x.Coef, y.Coef
	e = x.E10
	switch {
	case x.E10 > y.E10:
		a = new(big.Int).Mul(a, p10(x.E10-y.E10))
		e = y.E10
	case x.E10 < y.E10:
		b = new(big.Int).Mul(b, p10(y.E10-x.E10))
	}
	return
}

// addExact returns x+y for finite x, y; Form zero if the sum is exactly 0
// (sign left false; the caller applies the IEEE rule).
func addExact(x, y Val) Val {
	a, b, e := align(x, y)
	if x.Neg {
		a = new(big.Int).Neg(a)
	}
	if y.Neg {
		b = new(big.Int).Neg(b)
	}
	s := new(big.Int).Add(a, b)
	if s.Sign() == 0 {
		return Val{Form: fZero}
	}
	neg := s.Sign() < 0
	return Val{Form: fFinite, Neg: neg, Coef: s.Abs(s), E10: e}
}

func negVal(v Val) Val { v.Neg = !v.Neg; return v }

func mulExact(x, y Val) Val {
	return Val{Form: fFinite, Neg: x.Neg != y.Neg, Coef: new(big.Int).Mul(x.Coef, y.Coef), E10: x.E10 + y.E10}
}

// ---- model of the arithmetic operations including special values ----

// zeroSumSign is the IEEE-754 sign of an exactly zero sum of x and y whose
// signs are xn, yn.
func zeroSumNeg(xn, yn bool, mode uint8) bool {
	if xn == yn {
		return xn
	}
	return mode == ToNegativeInf
}

func ModelAdd(x, y Val, prec uint32, mode uint8) RRes {
	switch {
	case x.Form == fInf && y.Form == fInf:
		if x.Neg != y.Neg {
			return RRes{NaN: true}
		}
		return RRes{Form: fInf, Neg: x.Neg}
	case x.Form == fInf:
		return RRes{Form: fInf, Neg: x.Neg}
	case y.Form == fInf:
		return RRes{Form: fInf, Neg: y.Neg}
	case x.Form == fZero && y.Form == fZero:
		return RRes{Form: fZero, Neg: zeroSumNeg(x.Neg, y.Neg, mode)}
	case x.Form == fZero:
		return RoundVal(y, prec, mode)
	case y.Form == fZero:
		return RoundVal(x, prec, mode)
	}
	s := addExact(x, y)
	if s.Form == fZero {
		return RRes{Form: fZero, Neg: zeroSumNeg(x.Neg, y.Neg, mode)}
	}
	return RoundVal(s, prec, mode)
}

func ModelSub(x, y Val, prec uint32, mode uint8) RRes {
	return ModelAdd(x, negVal(y), prec, mode)
}

func ModelMul(x, y Val, prec uint32, mode uint8) RRes {
	neg := x.Neg != y.Neg
	switch {
	case (x.Form == fZero && y.Form == fInf) || (x.Form == fInf && y.Form == fZero):
		return RRes{NaN: true}
	case x.Form == fInf || y.Form == fInf:
		return RRes{Form: fInf, Neg: neg}
	case x.Form == fZero || y.Form == fZero:
		return RRes{Form: fZero, Neg: neg}
	}
	return RoundVal(mulExact(x, y), prec, mode)
}

func ModelQuo(x, y Val, prec uint32, mode uint8) RRes {
	neg := x.Neg != y.Neg
	switch {
	case (x.Form == fZero && y.Form == fZero) || (x.Form == fInf && y.Form == fInf):
		return RRes{NaN: true}
	case x.Form == fZero || y.Form == fInf:
		return RRes{Form: fZero, Neg: neg}
	case y.Form == fZero || x.Form == fInf:
		return RRes{Form: fInf, Neg: neg}
	}
	return PrepRat(x.Coef, y.Coef, x.E10-y.E10, prec).Apply(neg, mode)
}

// ModelFMA: x*y+u with a single rounding.
func ModelFMA(x, y, u Val, prec uint32, mode uint8) RRes {
	pneg := x.Neg != y.Neg
	if (x.Form == fZero && y.Form == fInf) || (x.Form == fInf && y.Form == fZero) {
		return RRes{NaN: true}
	}
	if x.Form == fInf || y.Form == fInf {
		if u.Form == fInf && u.Neg != pneg {
			return RRes{NaN: true}
		}
		return RRes{Form: fInf, Neg: pneg}
	}
	if u.Form == fInf {
		return RRes{Form: fInf, Neg: u.Neg}
	}
	if x.Form == fZero || y.Form == fZero {
		// exact zero product
		if u.Form == fZero {
			return RRes{Form: fZero, Neg: zeroSumNeg(pneg, u.Neg, mode)}
		}
		return RoundVal(u, prec, mode)
	}
	p := mulExact(x, y)
	if u.Form == fZero {
		return RoundVal(p, prec, mode)
	}
	s := addExact(p, u)
	if s.Form == fZero {
		return RRes{Form: fZero, Neg: zeroSumNeg(pneg, u.Neg, mode)}
	}
	return RoundVal(s, prec, mode)
}

// ModelSqrt: correctly rounded square root.
func ModelSqrt(x Val, prec uint32, mode uint8) RRes {
	switch {
	case x.Form == fZero:
		return RRes{Form: fZero, Neg: x.Neg}
	case x.Neg:
		return RRes{NaN: true}
	case x.Form == fInf:
		return RRes{Form: fInf}
	}
	p := int64(prec)
	// want s = floor(sqrt(c·10^k)) with exactly p digits (or p+1), k ≡ E10 (mod 2)
	c, e := x.Coef, x.E10
	dn := ndigits(c)
	// sqrt has ceil((dn+k)/2) digits; choose k so that digits >= p+1
	k := 2*(p+1) - dn
	if k < 0 {
		k = 0
	}
	if (e-k)%2 != 0 {
		k++
	}
	n := c
	if k > 0 {
		n = new(big.Int).Mul(c, p10(k))
	}
	s := new(big.Int).Sqrt(n)
	rem := new(big.Int).Sub(n, new(big.Int).Mul(s, s))
	re := (e - k) / 2
	// value = sqrt(n)·10^re, s = floor(sqrt(n)), rem = n − s² (0 <= rem <= 2s)
	ds := ndigits(s)
	var q *big.Int
	var drop int64
	low := new(big.Int)
	if ds > p {
		drop = ds - p
		q, low = new(big.Int).QuoRem(s, p10(drop), low)
	} else {
		q = s
	}
	pr := Prep{Q: q, E: re + drop, Prec: p, ExpEx: ndigits(q) + re + drop, QOdd: q.Bit(0) == 1 && ndigits(q) == p}
	if low.Sign() != 0 || rem.Sign() != 0 {
		pr.Inexact = true
		if drop == 0 {
			// s has <= p digits yet is inexact: fractional part of sqrt in (0,1):
			// compare sqrt(n) with s+1/2  <=>  n vs s²+s+1/4  <=> rem vs s + 1/4 <=> rem <= s -> below
			if rem.Cmp(s) <= 0 {
				pr.Half = -1
			} else {
				pr.Half = 1
			}
			if ndigits(q) < p {
				// can only happen if k was not enough; guard
				panic("ModelSqrt: too few digits")
			}
		} else {
			half := new(big.Int).Mul(big.NewInt(5), p10(drop-1))
			switch cm := low.Cmp(half); {
			case cm < 0:
				pr.Half = -1
			case cm > 0:
				pr.Half = 1
			default:
				if rem.Sign() != 0 {
					pr.Half = 1
				} else {
					pr.Half = 0
				}
			}
		}
	}
	return pr.Apply(false, mode)
}

// ---- self check of the model against the standard library ----

func selfCheck() {
	fail := func(msg string) {
		fmt.Fprintln(os.Stderr, "HARNESS-ERROR: reference model self-check failed:", msg)
		os.Exit(2)
	}
	// RoundVal against strconv-style knowledge: a few hand-verified anchors
	type tc struct {
		coef string
		e10  int64
		neg  bool
		prec uint32
		mode uint8
		want string
		acc  int8
	}
	for _, t := range []tc{
		{"12345", -4, false, 3, ToNearestEven, "123e-2", -1},
		{"12345", -4, true, 3, ToPositiveInf, "-123e-2", 1},
		{"12345", -4, true, 3, ToNegativeInf, "-124e-2", -1},
		{"125", 0, false, 2, ToNearestEven, "12e1", -1},
		{"135", 0, false, 2, ToNearestEven, "14e1", 1},
		{"125", 0, false, 2, ToNearestAway, "13e1", 1},
		{"999", 0, false, 2, AwayFromZero, "1e3", 1},
		{"999", 0, false, 2, ToZero, "99e1", -1},
		{"5", 0, false, 3, ToZero, "5e0", 0},
	} {
		c, _ := new(big.Int).SetString(t.coef, 10)
		r := RoundVal(Val{Form: fFinite, Neg: t.neg, Coef: c, E10: t.e10}, t.prec, t.mode)
		if r.Val().Norm().String() != t.want || r.Acc != t.acc {
			fail(fmt.Sprintf("RoundVal(%s e%d prec %d mode %d) = %s, want %s acc %d", t.coef, t.e10, t.prec, t.mode, r, t.want, t.acc))
		}
	}
	// PrepRat (rational path) must agree with the integer path on exact multiples,
	// and with big.Float (binary) where both apply: x/y for small ints at prec
	// digits compared through big.Rat arithmetic.
	for a := int64(1); a <= 40; a++ {
		for b := int64(1); b <= 40; b++ {
			for prec := uint32(1); prec <= 6; prec++ {
				for mode := uint8(0); mode < 6; mode++ {
					r := PrepRat(big.NewInt(a), big.NewInt(b), 0, prec).Apply(false, mode)
					// independent check: |r - a/b| < 1 ulp, direction per acc, nearest when mode says so
					got := new(big.Rat).SetFrac(r.Coef, big1)
					if r.E10 >= 0 {
						got.Mul(got, new(big.Rat).SetInt(p10(r.E10)))
					} else {
						got.Quo(got, new(big.Rat).SetInt(p10(-r.E10)))
					}
					ex := big.NewRat(a, b)
					d := new(big.Rat).Sub(got, ex)
					if int8(d.Sign()) != r.Acc {
						fail(fmt.Sprintf("PrepRat acc %d/%d", a, b))
					}
					ulp := new(big.Rat).SetInt(p10(0))
					ee := ndigits(r.Coef) + r.E10 - int64(prec)
					if ee >= 0 {
						ulp.SetInt(p10(ee))
					} else {
						ulp.SetFrac(big1, p10(-ee))
					}
					ad := new(big.Rat).Abs(d)
					if ad.Cmp(ulp) >= 0 {
						fail(fmt.Sprintf("PrepRat |err| >= ulp %d/%d prec %d mode %d: %s", a, b, prec, mode, r))
					}
					if mode <= ToNearestAway {
						h := new(big.Rat).Mul(ulp, big.NewRat(1, 2))
						if ad.Cmp(h) > 0 {
							fail(fmt.Sprintf("PrepRat not nearest %d/%d prec %d mode %d: %s", a, b, prec, mode, r))
						}
					}
					if (mode == ToZero || mode == ToNegativeInf) && d.Sign() > 0 {
						fail("PrepRat directed")
					}
					if (mode == AwayFromZero || mode == ToPositiveInf) && d.Sign() < 0 {
						fail("PrepRat directed up")
					}
				}
			}
		}
	}
	// ModelSqrt: s² <= x < (s+ulp)² for ToZero; exact on perfect squares in all modes
	for n := int64(1); n <= 400; n++ {
		for prec := uint32(1); prec <= 5; prec++ {
			r := ModelSqrt(Val{Form: fFinite, Coef: big.NewInt(n), E10: 0}, prec, ToZero)
			lo := new(big.Rat).SetInt(r.Coef)
			ulp := new(big.Rat).SetInt64(1)
			if r.E10 >= 0 {
				lo.Mul(lo, new(big.Rat).SetInt(p10(r.E10)))
				ulp.SetInt(p10(r.E10))
			} else {
				lo.Quo(lo, new(big.Rat).SetInt(p10(-r.E10)))
				ulp.SetFrac(big1, p10(-r.E10))
			}
			if ndigits(r.Coef) < int64(prec) {
				// exact short result: ulp relative to prec digits
				sh := int64(prec) - ndigits(r.Coef)
				ulp.Quo(ulp, new(big.Rat).SetInt(p10(sh)))
			}
			hi := new(big.Rat).Add(lo, ulp)
			x := new(big.Rat).SetInt64(n)
			lo2 := new(big.Rat).Mul(lo, lo)
			hi2 := new(big.Rat).Mul(hi, hi)
			if lo2.Cmp(x) > 0 || hi2.Cmp(x) <= 0 {
				fail(fmt.Sprintf("ModelSqrt(%d) prec %d = %s", n, prec, r))
			}
			if (lo2.Cmp(x) == 0) != (r.Acc == 0) {
				fail(fmt.Sprintf("ModelSqrt(%d) exactness", n))
			}
		}
	}
	for _, m := range []uint8{0, 1, 2, 3, 4, 5} {
		r := ModelSqrt(Val{Form: fFinite, Coef: big.NewInt(225), E10: 0}, 1, m)
		want := map[uint8]string{0: "2e1", 1: "2e1", 2: "1e1", 3: "2e1", 4: "1e1", 5: "2e1"}[m]
		if r.Val().Norm().String() != want {
			fail(fmt.Sprintf("ModelSqrt(225) prec 1 mode %d = %s want %s", m, r, want))
		}
		r = ModelSqrt(Val{Form: fFinite, Coef: big.NewInt(9), E10: 0}, 5, m)
		if r.Val().Norm().String() != "3e0" || r.Acc != 0 {
			fail(fmt.Sprintf("ModelSqrt(9) = %s", r))
		}
		r = ModelSqrt(Val{Form: fFinite, Coef: big.NewInt(9), E10: -1}, 3, m) // sqrt(0.9)=0.948683
		want = map[uint8]string{0: "949e-3", 1: "949e-3", 2: "948e-3", 3: "949e-3", 4: "948e-3", 5: "949e-3"}[m]
		if r.Val().Norm().String() != want {
			fail(fmt.Sprintf("ModelSqrt(0.9) prec 3 mode %d = %s want %s", m, r, want))
		}
	}
}
