package main

// Engine E3: stateless model checking of goroutines that share read-only
// operands. A cooperative scheduler owns every scheduling point (before and
// after each scratch-pool Get/Put, and — level B — before every arithmetic
// kernel call), plus the pool's answer at each Get. DFS over choice sequences
// with iterative bounding of preemptions and pool-answer deviations.

import (
	"fmt"
	"math/big"
	"os"
	"runtime"
	"strings"
	"sync"
	"time"

	"github.com/db47h/decimal"
)

type choicePt struct {
	kind    byte // 's' schedule, 'f' thread finished (forced hand-off), 'p' pool answer
	nopts   int
	chosen  int
	label   string
	preempt bool
}

type sched struct {
	n       int
	resume  []chan struct{}
	alive   []bool
	cur     int
	prefix  []int
	points  []choicePt
	levelB  bool
	done    chan struct{}
	diverge string
	// pool
	free     []*[]Word
	out      map[*[]Word]int // buffer -> owning thread
	problems []string
	seq      uint64
	nget     int
}

func (s *sched) next(kind byte, nopts int, label string, canPreempt bool) int {
	i := len(s.points)
	ch := 0
	if i < len(s.prefix) {
		ch = s.prefix[i]
		if ch >= nopts {
			s.diverge = fmt.Sprintf("replay divergence at point %d (%s): choice %d of %d options", i, label, ch, nopts)
			ch = 0
		}
	}
	s.points = append(s.points, choicePt{kind: kind, nopts: nopts, chosen: ch, label: label, preempt: canPreempt && ch != 0})
	return ch
}

func (s *sched) enabledFrom(tid int) []int {
	opts := []int{tid}
	for i := 0; i < s.n; i++ {
		if i != tid && s.alive[i] {
			opts = append(opts, i)
		}
	}
	return opts
}

// point is a scheduling point reached by the running thread.
func (s *sched) point(label string) {
	tid := s.cur
	opts := s.enabledFrom(tid)
	if len(opts) == 1 {
		return
	}
	nt := opts[s.next('s', len(opts), label, true)]
	if nt != tid {
		s.cur = nt
		s.resume[nt] <- struct{}{}
		<-s.resume[tid]
	}
}

func (s *sched) finish(tid int) {
	s.alive[tid] = false
	var opts []int
	for i := 0; i < s.n; i++ {
		if s.alive[i] {
			opts = append(opts, i)
		}
	}
	if len(opts) == 0 {
		close(s.done)
		return
	}
	nt := opts[0]
	if len(opts) > 1 {
		nt = opts[s.next('f', len(opts), fmt.Sprintf("t%d finished", tid), false)]
	}
	s.cur = nt
	s.resume[nt] <- struct{}{}
}

// ---- pool under the scheduler ----

func (s *sched) poolGet() interface{} {
	s.point("pool.Get:before")
	s.nget++
	// options: 0 = most recently returned buffer (or a miss if none), then the other pooled buffers, then a miss
	nopts := len(s.free) + 1
	ch := 0
	if nopts > 1 {
		ch = s.next('p', nopts, "pool answer", false)
	}
	var b *[]Word
	if ch < len(s.free) {
		idx := len(s.free) - 1 - ch
		b = s.free[idx]
		s.free = append(s.free[:idx], s.free[idx+1:]...)
	} else {
		nb := make([]Word, 0, 256)
		b = &nb
	}
	s.seq++
	full := (*b)[:cap(*b)]
	for i := range full {
		full[i] = garbageWord(uint64(i) + s.seq)
	}
	*b = (*b)[:0]
	s.out[b] = s.cur
	s.point("pool.Get:after")
	return decimal.VerifDecPtr(b)
}

func (s *sched) poolPut(x interface{}) {
	s.point("pool.Put:before")
	b := decimal.VerifFromDecPtr(x)
	if b == nil {
		s.problems = append(s.problems, fmt.Sprintf("Put of a %T", x))
	} else {
		if owner, ok := s.out[b]; !ok {
			s.problems = append(s.problems, "Put of a buffer that is not checked out (double put or foreign buffer)")
		} else if owner != s.cur {
			s.problems = append(s.problems, fmt.Sprintf("thread %d returned a buffer obtained by thread %d", s.cur, owner))
		}
		delete(s.out, b)
		s.seq++
		full := (*b)[:cap(*b)]
		for i := range full {
			full[i] = garbageWord(uint64(i) + 31*s.seq) // poison: later use by the old owner reads garbage
		}
		s.free = append(s.free, b)
	}
	s.point("pool.Put:after")
}

// ---- scenarios ----

type thread struct {
	name string
	body func() string // runs one operation with its own receiver on the shared operands; returns a digest
}

type scenario struct {
	name string
	mk   func() (threads []thread, operands []*Dec)
	thr  thrAssign
}

type execResult struct {
	points   []choicePt
	digests  []string
	panics   []interface{}
	problems []string
	diverge  string
	opsAfter []string
	hung     bool
}

var schedMu sync.Mutex

// runSchedule executes the scenario once under the given choice prefix.
func runSchedule(sc *scenario, prefix []int, levelB bool) execResult {
	schedMu.Lock()
	defer schedMu.Unlock()
	ok, obs, oks := decimal.VerifThresholds()
	decimal.VerifSetThresholds(sc.thr.k, sc.thr.bs, sc.thr.ks)
	defer decimal.VerifSetThresholds(ok, obs, oks)
	threads, operands := sc.mk()
	s := &sched{n: len(threads), prefix: prefix, levelB: levelB, done: make(chan struct{}), out: map[*[]Word]int{}}
	s.resume = make([]chan struct{}, s.n)
	s.alive = make([]bool, s.n)
	res := execResult{digests: make([]string, s.n), panics: make([]interface{}, s.n)}
	for i := range threads {
		s.resume[i] = make(chan struct{})
		s.alive[i] = true
	}
	decimal.VerifPoolGetFn = s.poolGet
	decimal.VerifPoolPutFn = s.poolPut
	decimal.VerifPointFn = func(name string) {
		if s.levelB {
			s.point("kernel " + name)
		}
	}
	defer func() {
		decimal.VerifPoolGetFn, decimal.VerifPoolPutFn, decimal.VerifPointFn = nil, nil, nil
	}()
	for i := range threads {
		i := i
		go func() {
			<-s.resume[i]
			pv, _ := protect(func() { res.digests[i] = threads[i].body() })
			res.panics[i] = pv
			s.finish(i)
		}()
	}
	// which thread starts is a choice too
	first := 0
	if s.n > 1 {
		first = s.next('f', s.n, "start", false)
	}
	s.cur = first
	s.resume[first] <- struct{}{}
	select {
	case <-s.done:
	case <-time.After(30 * time.Second):
		// a thread does not terminate under this schedule (e.g. it loops on an operand that another
		// thread modified). The stuck goroutine is abandoned; the caller reports the schedule.
		res.points = append([]choicePt(nil), s.points...)
		res.hung = true
		for i := range res.digests {
			res.digests[i] = "?"
		}
		for range operands {
			res.opsAfter = append(res.opsAfter, "?")
		}
		return res
	}
	res.points = s.points
	res.problems = s.problems
	res.diverge = s.diverge
	if len(s.out) > 0 {
		// only a problem when no thread panicked
		clean := true
		for _, p := range res.panics {
			if p != nil {
				clean = false
			}
		}
		if clean {
			res.problems = append(res.problems, fmt.Sprintf("%d pooled buffer(s) never returned", len(s.out)))
		}
	}
	for _, o := range operands {
		res.opsAfter = append(res.opsAfter, Observe(o).String())
	}
	return res
}

func choicesOf(pts []choicePt) []int {
	c := make([]int, len(pts))
	for i, p := range pts {
		c[i] = p.chosen
	}
	return c
}

func scheduleString(pts []choicePt) string {
	var sb strings.Builder
	for i, p := range pts {
		if p.chosen != 0 {
			fmt.Fprintf(&sb, "[#%d %s -> option %d/%d] ", i, p.label, p.chosen, p.nopts)
		}
	}
	if sb.Len() == 0 {
		return "(default schedule)"
	}
	return sb.String()
}

// exploreScenario runs the DFS with the given bounds.
func exploreScenario(c *Ctx, sc *scenario, levelB bool, maxPreempt, maxPoolDev int, shard, nshards int) {
	// sequential reference: each thread alone (no other thread alive => no scheduling choices)
	want := make([]string, 0)
	threads, operands := sc.mk()
	var opsBefore []string
	for _, o := range operands {
		opsBefore = append(opsBefore, Observe(o).String())
	}
	{
		ok, obs, oks := decimal.VerifThresholds()
		decimal.VerifSetThresholds(sc.thr.k, sc.thr.bs, sc.thr.ks)
		for _, t := range threads {
			want = append(want, t.body())
		}
		decimal.VerifSetThresholds(ok, obs, oks)
	}
	outcomes := map[string]bool{}
	// the subtrees below the root execution are distributed over nshards units (shard 0 also judges the root)
	rootChild := 0
	var rec func(prefix []int)
	rec = func(prefix []int) {
		if c.Done() {
			return
		}
		isRoot := prefix == nil
		skip := false
		if isRoot && shard != 0 {
			skip = true
		} else {
			skip = c.Skip()
		}
		x := runSchedule(sc, prefix, levelB)
		if !skip {
			c.NonTrivial()
			key := func() string {
				return fmt.Sprintf("scenario %s level=%s schedule=%v", sc.name, map[bool]string{false: "A", true: "B"}[levelB], choicesOf(x.points))
			}
			bad := ""
			switch {
			case x.hung:
				c.Fail(key(), "a goroutine did not terminate within 30 s under this schedule; "+scheduleString(x.points))
				c.cut = true // the abandoned goroutine still holds scheduler state: stop exploring in this worker
				return
			case x.diverge != "":
				fmt.Fprintln(os.Stderr, "HARNESS-ERROR:", x.diverge)
				os.Exit(2)
			case len(x.problems) > 0:
				bad = "scratch-pool protocol violated: " + strings.Join(x.problems, "; ")
			}
			for i := range threads {
				if bad != "" {
					break
				}
				if x.panics[i] != nil {
					bad = fmt.Sprintf("thread %s panicked: %v", threads[i].name, x.panics[i])
				} else if x.digests[i] != want[i] {
					bad = fmt.Sprintf("thread %s computed %s, sequentially it computes %s", threads[i].name, x.digests[i], want[i])
				}
			}
			for i := range opsBefore {
				if bad == "" && x.opsAfter[i] != opsBefore[i] {
					bad = fmt.Sprintf("shared operand #%d modified: %s -> %s", i, opsBefore[i], x.opsAfter[i])
				}
			}
			outcomes[strings.Join(x.digests, "|")] = true
			c.Outcome(fnvStr(fnvStr(0, sc.name), fmt.Sprint(choicesOf(x.points))))
			if bad != "" {
				// determinism: the same schedule must fail the same way 5 times
				same := 0
				for r := 0; r < 5; r++ {
					y := runSchedule(sc, choicesOf(x.points), levelB)
					if strings.Join(y.digests, "|") == strings.Join(x.digests, "|") && len(y.problems) == len(x.problems) {
						same++
					}
				}
				if same != 5 {
					fmt.Fprintf(os.Stderr, "HARNESS-ERROR: schedule %v of %s is not deterministic (%d/5 identical replays)\n", choicesOf(x.points), sc.name, same)
					os.Exit(2)
				}
				c.Fail(key(), bad+"; "+scheduleString(x.points))
			}
			if c.WantSample() {
				c.Sample(key() + " " + scheduleString(x.points))
			}
		}
		// children
		pre, dev := 0, 0
		for i := 0; i < len(x.points); i++ {
			p := x.points[i]
			if i >= len(prefix) {
				for alt := 1; alt < p.nopts; alt++ {
					np, nd := pre, dev
					switch p.kind {
					case 's':
						np++
					case 'p':
						nd++
					}
					if np > maxPreempt || nd > maxPoolDev {
						continue
					}
					child := append(append([]int(nil), choicesOf(x.points[:i])...), alt)
					if isRoot {
						rootChild++
						if rootChild%nshards != shard {
							continue
						}
					}
					rec(child)
				}
			}
			if p.chosen != 0 {
				switch p.kind {
				case 's':
					pre++
				case 'p':
					dev++
				}
			}
		}
	}
	before := c.stat.Evals
	rec(nil)
	lv := "A"
	if levelB {
		lv = "B"
	}
	c.Count("schedules_"+sc.name+"_level"+lv, c.stat.Evals-before)
	if shard == 0 {
		c.Count("distinct_outcomes_"+sc.name, int64(len(outcomes)))
	}
}

func schedOperands() (x, y, w *Dec) {
	x = mkWords(false, []uint64{BW - 1, 3, BW / 2, 7, BW - 2}, 3, 0, 0).Build()
	y = mkWords(false, []uint64{5, BW - 1, 2 * (BW / 10)}, -2, 0, 0).Build() // leading digit 2: normalisation factor d != 1
	w = mkWords(false, []uint64{BW / 3, 1, BW - 1, 4 * (BW / 10)}, 0, 0, 0).Build()
	return
}

func schedScenarios() []scenario {
	thr := thrAssign{2, 1, 4}
	dig := func(z *Dec) string { return Observe(z).String() }
	quo := func(x, y *Dec, p uint32, m uint8) thread {
		return thread{"Quo", func() string { return dig(fresh(p, m).Quo(x, y)) }}
	}
	mul := func(x, y *Dec, p uint32) thread {
		return thread{"Mul", func() string { return dig(fresh(p, ToNearestEven).Mul(x, y)) }}
	}
	sqrt := func(x *Dec, p uint32, m uint8) thread {
		return thread{fmt.Sprintf("Sqrt@%d", p), func() string { return dig(fresh(p, m).Sqrt(x)) }}
	}
	text := func(x *Dec) thread {
		return thread{"Text/Cmp", func() string { return x.Text('e', -1) + fmt.Sprint(x.Cmp(x), x.MinPrec()) }}
	}
	f64 := func(x *Dec) thread {
		return thread{"Float64", func() string { f, a := x.Float64(); return fmt.Sprint(f, a) }}
	}
	mk := func(f func(x, y, w *Dec) []thread) func() ([]thread, []*Dec) {
		return func() ([]thread, []*Dec) {
			x, y, w := schedOperands()
			return f(x, y, w), []*Dec{x, y, w}
		}
	}
	fma := func(x, y, u *Dec, p uint32) thread {
		return thread{"FMA", func() string { return dig(fresh(p, ToNearestAway).FMA(x, y, u)) }}
	}
	conv := func(x *Dec) thread {
		return thread{"Rat/Int/Gob", func() string {
			r, _ := x.Rat(nil)
			i, _ := x.Int(nil)
			b, _ := x.GobEncode()
			return fmt.Sprint(r, i, len(b))
		}}
	}
	textp := func(x *Dec) thread {
		// explicit precisions smaller than the digit count: the formatter rounds into a temporary
		return thread{"Text(prec)", func() string {
			return x.Text('e', 3) + " " + x.Text('f', 2) + " " + x.Text('g', 7) + " " + string(x.Append(nil, 'E', 25))
		}}
	}
	sprintf := func(x *Dec) thread {
		return thread{"Sprintf", func() string { return fmt.Sprintf("%.4g|%12.2f|%+.30e|%v", x, x, x, x) }}
	}
	f32rat := func(x *Dec) thread {
		return thread{"Float32/Rat/Int64", func() string {
			f, a := x.Float32()
			r, b := x.Rat(nil)
			i, c := x.Int64()
			return fmt.Sprint(f, a, r, b, i, c, x.IsInt())
		}}
	}
	marsh := func(x *Dec) thread {
		return thread{"Marshal", func() string {
			t, _ := x.MarshalText()
			g, _ := x.GobEncode()
			return fmt.Sprintf("%s %x", t, g)
		}}
	}
	scs := []scenario{
		{"Text(prec)||Text(prec)", mk(func(x, y, w *Dec) []thread { return []thread{textp(x), textp(w)} }), thr},
		{"Text(prec)||Sprintf", mk(func(x, y, w *Dec) []thread { return []thread{textp(y), sprintf(y)} }), thr},
		{"Sprintf||Quo", mk(func(x, y, w *Dec) []thread { return []thread{sprintf(x), quo(x, y, 12, ToNearestEven)} }), thr},
		{"Float32/Rat||Float32/Rat", mk(func(x, y, w *Dec) []thread { return []thread{f32rat(y), f32rat(w)} }), thr},
		{"Marshal||Text(prec)", mk(func(x, y, w *Dec) []thread { return []thread{marsh(w), textp(w)} }), thr},
		{"FMA||Quo", mk(func(x, y, w *Dec) []thread { return []thread{fma(x, w, y, 60), quo(w, y, 30, ToNearestEven)} }), thr},
		{"Rat/Int/Gob||Mul(x,x)", mk(func(x, y, w *Dec) []thread { return []thread{conv(x), mul(x, x, 150)} }), thr},
		{"Text||Sqrt", mk(func(x, y, w *Dec) []thread { return []thread{text(w), sqrt(w, 30, ToNearestEven)} }), thr},
		{"Quo||Quo", mk(func(x, y, w *Dec) []thread { return []thread{quo(x, y, 40, ToNearestEven), quo(w, y, 25, ToZero)} }), thr},
		{"Quo||Mul(x,x)", mk(func(x, y, w *Dec) []thread { return []thread{quo(x, y, 40, ToNearestEven), mul(y, y, 100)} }), thr},
		{"Mul||Mul", mk(func(x, y, w *Dec) []thread { return []thread{mul(x, w, 200), mul(w, x, 30)} }), thr},
		{"Sqrt||Sqrt", mk(func(x, y, w *Dec) []thread { return []thread{sqrt(y, 5, ToNearestEven), sqrt(y, 40, ToZero)} }), thr},
		{"Quo||Text", mk(func(x, y, w *Dec) []thread { return []thread{quo(x, y, 40, ToNearestEven), text(y)} }), thr},
		{"Float64||Quo", mk(func(x, y, w *Dec) []thread { return []thread{f64(y), quo(x, y, 20, ToPositiveInf)} }), thr},
		{"Quo||Sqrt||Text", mk(func(x, y, w *Dec) []thread {
			return []thread{quo(x, y, 30, ToNearestEven), sqrt(y, 20, ToNearestEven), text(y)}
		}), thr},
		{"Mul(x,x)||Mul(x,y)||Quo", mk(func(x, y, w *Dec) []thread {
			return []thread{mul(x, x, 100), mul(x, y, 60), quo(w, x, 30, ToZero)}
		}), thr},
	}
	// aliased receivers: every goroutine works on its own private receiver that is also an operand
	// (the code paths taken only under aliasing use temporaries of their own)
	priv := func(src *Dec, p uint32) *Dec { return new(Dec).SetPrec(uint(p)).Set(src) }
	alias := func(name string, f func(z, a, b *Dec) *Dec, zs, a, b *Dec, p uint32) thread {
		return thread{name, func() string { return dig(f(priv(zs, p), a, b)) }}
	}
	addzx := func(z, a, b *Dec) *Dec { return z.Add(a, z) }
	subzx := func(z, a, b *Dec) *Dec { return z.Sub(a, z) }
	subxz := func(z, a, b *Dec) *Dec { return z.Sub(z, a) }
	mulzz := func(z, a, b *Dec) *Dec { return z.Mul(z, z) }
	quozx := func(z, a, b *Dec) *Dec { return z.Quo(a, z) }
	fmau := func(z, a, b *Dec) *Dec { return z.FMA(a, b, z) }
	fmax := func(z, a, b *Dec) *Dec { return z.FMA(z, a, b) }
	sqrtz := func(z, a, b *Dec) *Dec { return z.Sqrt(z) }
	scs = append(scs,
		scenario{"z.Add(y,z)||z.Add(y,z)", mk(func(x, y, w *Dec) []thread {
			// both directions of "which operand reaches further down" (the one that does not is shifted into a temporary)
			return []thread{alias("z.Add(y,z)", addzx, x, y, nil, 120), alias("z'.Add(y,z')", addzx, w, y, nil, 90)}
		}), thr},
		scenario{"z.Add(x,z)||z.Add(w,z)", mk(func(x, y, w *Dec) []thread {
			return []thread{alias("z.Add(x,z)", addzx, y, x, nil, 120), alias("z'.Add(w,z')", addzx, y, w, nil, 90)}
		}), thr},
		scenario{"z.Sub(y,z)||z.Sub(y,z)", mk(func(x, y, w *Dec) []thread {
			return []thread{alias("z.Sub(y,z)", subzx, w, y, nil, 120), alias("z'.Sub(y,z')", subzx, x, y, nil, 90)}
		}), thr},
		scenario{"z.Sub(z,y)||z.Sub(z,x)", mk(func(x, y, w *Dec) []thread {
			return []thread{alias("z.Sub(z,y)", subxz, x, y, nil, 120), alias("z'.Sub(z',x)", subxz, y, x, nil, 90)}
		}), thr},
		scenario{"u.FMA(x,y,u)||u.FMA(x,y,u)", mk(func(x, y, w *Dec) []thread {
			return []thread{alias("u.FMA(x,y,u)", fmau, w, x, y, 150), alias("u.FMA(y,x,u)", fmau, x, y, x, 60)}
		}), thr},
		scenario{"z.FMA(z,x,y)||z.Mul(z,z)", mk(func(x, y, w *Dec) []thread {
			return []thread{alias("z.FMA(z,x,y)", fmax, w, x, y, 150), alias("z.Mul(z,z)", mulzz, x, nil, nil, 200)}
		}), thr},
		scenario{"z.Quo(x,z)||z.Sqrt(z)", mk(func(x, y, w *Dec) []thread {
			return []thread{alias("z.Quo(x,z)", quozx, y, x, nil, 40), alias("z.Sqrt(z)", sqrtz, y, nil, nil, 30)}
		}), thr},
	)
	// input conversions (no Decimal operand of their own, but the same pool, conversion tables and
	// scratch buffers) running next to readers of the shared operands
	parse := func(lit string, p uint32, m uint8) thread {
		return thread{"Parse", func() string {
			z, _, err := fresh(p, m).Parse(lit, 0)
			if err != nil {
				return "error " + err.Error()
			}
			return dig(z)
		}}
	}
	setf := func(f float64, p uint32) thread {
		return thread{"SetFloat64/SetRat", func() string {
			a := dig(fresh(p, ToNearestEven).SetFloat64(f))
			b := dig(fresh(p, ToZero).SetRat(big.NewRat(1234567890123456789, 3<<40)))
			return a + " " + b
		}}
	}
	const lit1 = "9876543210987654321098765.4321e-7"
	const lit2 = "0x1.fffffffffffffffffp+70"
	scs = append(scs,
		scenario{"Parse||Parse", mk(func(x, y, w *Dec) []thread { return []thread{parse(lit1, 20, ToNearestEven), parse(lit2, 30, ToZero)} }), thr},
		scenario{"Parse||Text(prec)", mk(func(x, y, w *Dec) []thread {
			return []thread{parse(lit1, 25, ToNearestAway), textp(x)}
		}), thr},
		scenario{"SetFloat64/SetRat||Float64", mk(func(x, y, w *Dec) []thread {
			return []thread{setf(0x1.8p-20, 40), f64(y)}
		}), thr},
	)
	// every non-arithmetic operand-taking operation against itself (two goroutines inside the same
	// function at once: a function-local cache or scratch variable hoisted to package scope shows here)
	for _, op := range roOps() {
		switch op.name {
		case "Add", "Sub", "Mul", "Quo", "Mul(x,x)", "FMA", "Sqrt":
			continue // covered by the scenarios above
		}
		op := op
		scs = append(scs, scenario{op.name + "||" + op.name, mk(func(x, y, w *Dec) []thread {
			a1 := []*Dec{x, y, w}[:op.arity]
			a2 := []*Dec{w, x, y}[:op.arity]
			return []thread{
				{op.name, func() string { return op.f(fresh(30, ToNearestEven), a1) }},
				{op.name + "'", func() string { return op.f(fresh(12, ToZero), a2) }},
			}
		}), thr})
	}
	return scs
}

func schedLayers(tier string) []Layer {
	thorough := tier == "thorough"
	scs := schedScenarios()
	type unit struct {
		sc             int
		levelB         bool
		shard, nshards int
	}
	var units []unit
	for i := range scs {
		threads, _ := scs[i].mk()
		n := 1
		if len(threads) > 2 {
			n = 12 // the 3-thread level-A trees are the large ones: split below the root
		}
		for sh := 0; sh < n; sh++ {
			units = append(units, unit{i, false, sh, n})
		}
		nb := 1
		if len(threads) > 2 {
			nb = 12
		}
		for sh := 0; sh < nb; sh++ {
			units = append(units, unit{i, true, sh, nb})
		}
	}
	return []Layer{{
		Name:   "Z1-schedules",
		Units:  len(units),
		Bounds: "47 scenarios of 2–3 goroutines (16 hand-written mixes + 7 with private receivers that are also operands + 3 with input conversions (Parse, SetFloat64, SetRat) next to readers + every non-arithmetic operand-taking operation against itself), each one operation with its own receiver on shared 3–5-word operands (thresholds 2/1/4 so that Karatsuba, squaring and long division use pooled scratch buffers); level A: scheduling points before and after every pool Get/Put, all interleavings for 2 threads (preemption bound 6; 3 threads: 3) × pool-answer deviations <= 2; level B: additionally a point before every arithmetic kernel call, preemption bound 2 (quick) / 3 (thorough) for 2 and 3 threads, pool deviations <= 1; adversarial pool (garbage on Get, poison on Put, ownership tracking); oracle: each thread's result == its sequential result, operands unchanged, no panic, pool protocol respected",
		Run: func(c *Ctx, u int) {
			if !poolSeamsPresent() {
				fmt.Fprintln(os.Stderr, "HARNESS-ERROR: pool seams not present in this build (overlay missing)")
				os.Exit(2)
			}
			sc := &scs[units[u].sc]
			threads, _ := sc.mk()
			if units[u].levelB {
				pb := 2
				if thorough {
					pb = 3
				}
				if strings.HasPrefix(sc.name, "z.") || strings.HasPrefix(sc.name, "u.") {
					pb-- // private-receiver scenarios run several hundred kernel calls per thread
				}
				_ = threads
				if kernelPointsSeen(sc) == 0 {
					// the canary scenario (long division and FMA) must show kernel points, otherwise the build lacks them
					if scs[5].name != "FMA||Quo" || kernelPointsSeen(&scs[5]) == 0 {
						fmt.Fprintln(os.Stderr, "HARNESS-ERROR: no kernel scheduling points seen (build without -tags decimal_pure_go / overlay --points)")
						os.Exit(2)
					}
					c.Count("level_B_units_without_kernel_calls", 1)
					return // this scenario makes no kernel calls: level B coincides with level A
				}
				exploreScenario(c, sc, true, pb, 1, units[u].shard, units[u].nshards)
			} else {
				pb := 6
				if len(threads) > 2 {
					pb = 3
				}
				if strings.HasPrefix(sc.name, "z.") || strings.HasPrefix(sc.name, "u.") {
					pb = 2 // private-receiver scenarios: dozens of pool operations per thread
					if thorough {
						pb = 3
					}
				}
				exploreScenario(c, sc, false, pb, 2, units[u].shard, units[u].nshards)
			}
		},
	}}
}

func kernelPointsSeen(sc *scenario) int {
	n := 0
	decimal.VerifPointFn = func(string) { n++ }
	threads, _ := sc.mk()
	for _, t := range threads {
		t.body()
	}
	decimal.VerifPointFn = nil
	return n
}

// ---- free-running pass for the race detector (supporting evidence) ----

func racePass(args []string) int {
	scs := schedScenarios()
	for _, procs := range []int{2, 16} {
		runtime.GOMAXPROCS(procs)
		for round := 0; round < 20; round++ {
			for si := range scs {
				sc := &scs[si]
				ok, obs, oks := decimal.VerifThresholds()
				if round%2 == 0 {
					decimal.VerifSetThresholds(sc.thr.k, sc.thr.bs, sc.thr.ks)
				}
				threads, _ := sc.mk()
				var wg sync.WaitGroup
				for rep := 0; rep < 3; rep++ {
					for _, t := range threads {
						t := t
						wg.Add(1)
						go func() {
							defer wg.Done()
							for k := 0; k < 5; k++ {
								t.body()
							}
						}()
					}
				}
				if round%5 == 0 {
					runtime.GC() // empties the real sync.Pool
				}
				waited := make(chan struct{})
				go func() { wg.Wait(); close(waited) }()
				select {
				case <-waited:
				case <-time.After(60 * time.Second):
					fmt.Printf("NON-TERMINATION: scenario %s did not finish within 60 s when run concurrently (GOMAXPROCS=%d)\n", sc.name, procs)
					os.Exit(3)
				}
				decimal.VerifSetThresholds(ok, obs, oks)
			}
		}
	}
	fmt.Println("racepass: completed", len(scs), "scenarios x 20 rounds x GOMAXPROCS {2,16}")
	return 0
}

// stressPass (supporting, sampling): the scenario bodies free-running on real OS threads in the DEFAULT build
// (assembly kernels, which neither the race detector nor the cooperative scheduler can look into); every
// result is compared with the sequential result of the same body.
func stressPass(args []string) int {
	scs := schedScenarios()
	runtime.GOMAXPROCS(16)
	bad := 0
	for si := range scs {
		sc := &scs[si]
		threads, _ := sc.mk()
		want := make([]string, len(threads))
		for i, t := range threads {
			want[i] = t.body()
		}
		var mu sync.Mutex
		var wg sync.WaitGroup
		for round := 0; round < 6 && bad == 0; round++ {
			for rep := 0; rep < 4; rep++ {
				for i, t := range threads {
					i, t := i, t
					wg.Add(1)
					go func() {
						defer wg.Done()
						defer func() {
							if r := recover(); r != nil {
								mu.Lock()
								if bad < 5 {
									fmt.Printf("STRESS-MISMATCH: scenario %s thread %s panicked when run concurrently: %v\n", sc.name, t.name, r)
								}
								bad++
								mu.Unlock()
							}
						}()
						for k := 0; k < 40; k++ {
							if got := t.body(); got != want[i] {
								mu.Lock()
								if bad < 5 {
									fmt.Printf("STRESS-MISMATCH: scenario %s thread %s computed %.300s concurrently, %.300s sequentially\n", sc.name, t.name, got, want[i])
								}
								bad++
								mu.Unlock()
								return
							}
						}
					}()
				}
			}
			waited := make(chan struct{})
			go func() { wg.Wait(); close(waited) }()
			select {
			case <-waited:
			case <-time.After(60 * time.Second):
				fmt.Printf("NON-TERMINATION: scenario %s did not finish within 60 s when run concurrently (default build)\n", sc.name)
				os.Exit(3)
			}
		}
	}
	fmt.Println("stresspass: completed", len(scs), "scenarios x 6 rounds x 4 copies x 40 iterations, default build; mismatches:", bad)
	if bad > 0 {
		return 4
	}
	return 0
}

func init() {
	specials["stresspass"] = stressPass
	specials["racepass"] = racePass
	register(&Property{
		ID: "C18", OwnPool: true, Level: "model_checking",
		Rule: "an evaluation is one complete execution of a multi-goroutine scenario under one schedule (sequence of scheduling and pool-answer choices), or one operation on write-protected operands; schedules are distinct by construction (DFS over choice sequences); every execution is compared with the sequential results",
		Assumptions: []string{
			"the cooperative scheduler interleaves at pool operations and kernel calls; a thread's private computation between two such points is treated as atomic (sequential consistency at kernel granularity)",
			"stores to shared data between scheduling points are covered separately: operands, their mantissas and every package-level *Decimal are placed in PROT_READ memory (any store faults), and a free-running -race pass of the same thread bodies is run as supporting evidence (a reported race fails the check)",
			"pool answers: any pooled buffer or a miss, contents arbitrary valid words (the real sync.Pool can do no more)",
		},
		Layers: func(tier string) []Layer {
			return append(wprotLayers(tier, "C18"), schedLayers(tier)...)
		},
	})
}
