package main

// Setter spaces shared by C14 (integer/rational conversions), C20 (raw mantissa
// access, MantExp/SetMantExp) and C02 (accuracy of the setters).

import (
	"fmt"
	"math"
	"math/big"

	"github.com/db47h/decimal"
)

// judgeSetter compares the receiver after a setter with the exact argument value
// rounded once to (prec, mode). For prec == 0 the caller passes the precision
// the receiver is documented to take (wantPrec; 0 = do not check).
func judgeSetter(c *Ctx, j judge, key func() string, z *Dec, pv interface{}, exact Val, prec uint32, mode uint8) {
	if pv != nil {
		c.Fail(key(), fmt.Sprintf("panic: %v", pv))
		return
	}
	o := Observe(z)
	c.Outcome(o.Hash())
	if msg := Canonical(o); msg != "" {
		c.Fail(key(), "result not canonical: "+msg)
		return
	}
	exp := RoundVal(exact, prec, mode)
	if exp.Acc != 0 {
		c.NonTrivial()
	}
	ok := matchValue(o, exp)
	switch j {
	case judgeAttr:
		if msg := attrMsg(o, prec, mode); msg != "" {
			c.Fail(key(), msg)
		}
	case judgeValue:
		if !ok {
			c.Fail(key(), cmpValue(o, exp))
		}
	case judgeAcc:
		want := exp.Acc
		if !ok {
			want = int8(CmpVal(o.Val(), exact))
		}
		if o.Acc != want {
			c.Fail(key(), fmt.Sprintf("Acc() = %d but sign(stored − exact) = %d; stored %s, model %s", o.Acc, want, o, exp))
		}
	}
	if c.WantSample() {
		c.Sample(fmt.Sprintf("%s -> %s", key(), o))
	}
}

var setterPrecs = []uint32{0, 1, 2, 5, 19, 20, 34, 40}

// effPrec is the precision a zero-precision receiver takes for an integer argument:
// max(digit count incl. trailing zeros, DefaultDecimalPrec)  (documented for SetInt),
// DefaultDecimalPrec for the 64-bit setters.
func intPrec(p uint32, v *big.Int, is64 bool) uint32 {
	if p != 0 {
		return p
	}
	if is64 || v.Sign() == 0 {
		return 34
	}
	d := uint32(ndigits(new(big.Int).Abs(v)))
	if d < 34 {
		d = 34
	}
	return d
}

func valOfInt(v *big.Int) Val {
	if v.Sign() == 0 {
		return Val{Form: fZero}
	}
	return Val{Form: fFinite, Neg: v.Sign() < 0, Coef: new(big.Int).Abs(v), E10: 0}
}

func edgeInts(maxBits int) []*big.Int {
	var out []*big.Int
	seen := map[string]bool{}
	add := func(v *big.Int) {
		for _, s := range []int64{1, -1} {
			w := new(big.Int).Mul(v, big.NewInt(s))
			if !seen[w.String()] {
				seen[w.String()] = true
				out = append(out, w)
			}
		}
	}
	add(big.NewInt(0))
	for _, d := range []int64{0, 1, -1, 2, 5} {
		for k := 0; k <= maxBits; k++ {
			if k > 70 && k%19 != 0 && k%64 != 0 && k%63 != 0 && k%65 != 0 {
				continue
			}
			v := new(big.Int).Lsh(big1, uint(k))
			v.Add(v, big.NewInt(d))
			if v.Sign() > 0 {
				add(v)
			}
		}
		for k := int64(0); k <= int64(maxBits)*3/10; k++ {
			if k > 45 && k%19 != 0 && k%19 != 1 && k%19 != 18 {
				continue
			}
			v := new(big.Int).Add(p10(k), big.NewInt(d))
			if v.Sign() > 0 {
				add(v)
			}
		}
	}
	return out
}

func edgeInt64s() []int64 {
	seen := map[int64]bool{}
	var out []int64
	add := func(v int64) {
		if !seen[v] {
			seen[v] = true
			out = append(out, v)
		}
	}
	for _, v := range []int64{0, 1, -1, 7, -7, 15, 99, 12345, -12345, math.MaxInt64, math.MinInt64, math.MaxInt64 - 1, math.MinInt64 + 1, 5000000000000000000, 4999999999999999999, 1234567890123456789, 999999999999999999, 9223372036854775800} {
		add(v)
	}
	p := int64(1)
	for k := 0; k <= 18; k++ {
		add(p)
		add(-p)
		add(p + 1)
		add(p - 1)
		add(-p - 1)
		add(5 * p)
		add(5*p + 1)
		add(-5*p - 1)
		if k < 18 {
			p *= 10
		}
	}
	return out
}

// setterPres is the list of receiver pre-states used by the setter layers (C10 widens it to all of them).
var setterPres = []int{preFresh, preLonger, preInexact}

func setterLayers(j judge, tier string) []Layer {
	thorough := tier == "thorough"
	var layers []Layer
	// S1: SetInt
	{
		maxBits := 4000
		_ = thorough
		ints := edgeInts(maxBits)
		layers = append(layers, Layer{
			Name:   "S1-SetInt",
			Units:  len(ints),
			Bounds: fmt.Sprintf("SetInt(±(2^k+d)), ±(10^k+d), d in {0,±1,2,5}, k up to %d bits (%d integers) × receiver prec %v × 6 modes × 2 pre-states", maxBits, len(ints), setterPrecs),
			Run: func(c *Ctx, u int) {
				v := ints[u]
				ex := valOfInt(v)
				for _, p := range setterPrecs {
					for _, m := range M6 {
						for _, pre := range setterPres {
							if c.Skip() {
								continue
							}
							z := buildPre(pre, p, m)
							arg := new(big.Int).Set(v)
							pv, _ := protect(func() { z.SetInt(arg) })
							key := func() string {
								return fmt.Sprintf("SetInt(%s) prec=%d mode=%s pre=%s", v, p, modeName(m), preNames[pre])
							}
							if arg.Cmp(v) != 0 {
								c.Fail(key(), "argument modified")
							}
							judgeSetter(c, j, key, z, pv, ex, intPrec(p, v, false), m)
						}
					}
				}
			},
		})
	}
	// S2: SetInt64 / SetUint64 / NewDecimal
	{
		i64 := edgeInt64s()
		exps := []int64{0, 1, -1, 5, -40, 40, MaxExp, MaxExp - 1, MaxExp - 19, MaxExp - 20, MinExp, MinExp + 1, MinExp - 1, MinExp - 19, MinExp + 18, math.MaxInt64, math.MaxInt64 - 40, math.MinInt64, math.MinInt64 + 40, 1 << 32, -(1 << 32), 1 << 31, -(1 << 31) - 1}
		layers = append(layers, Layer{
			Name:   "S2-SetInt64-Uint64-NewDecimal",
			Units:  len(i64),
			Bounds: fmt.Sprintf("SetInt64/SetUint64 over %d edge values (0, ±10^k, ±(10^k±1), ±5·10^k, int64/uint64 extremes) × prec %v × 6 modes; NewDecimal(x, exp) for exp in %d values incl. the int32 and int64 extremes", len(i64), setterPrecs, len(exps)),
			Run: func(c *Ctx, u int) {
				v := i64[u]
				for _, p := range setterPrecs {
					for _, m := range M6 {
						for _, pre := range setterPres {
							if c.Skip() {
								continue
							}
							z := buildPre(pre, p, m)
							pv, _ := protect(func() { z.SetInt64(v) })
							judgeSetter(c, j, func() string {
								return fmt.Sprintf("SetInt64(%d) prec=%d mode=%s pre=%s", v, p, modeName(m), preNames[pre])
							}, z, pv, valOfInt(big.NewInt(v)), intPrec(p, nil2(v), true), m)
						}
						for _, uv := range []uint64{uint64(v), uint64(v) ^ (1 << 63), math.MaxUint64 - uint64(u), 10000000000000000000 + uint64(u) - 40} {
							if c.Skip() {
								continue
							}
							z := buildPre(preShorter, p, m)
							pv, _ := protect(func() { z.SetUint64(uv) })
							bv := new(big.Int).SetUint64(uv)
							judgeSetter(c, j, func() string { return fmt.Sprintf("SetUint64(%d) prec=%d mode=%s", uv, p, modeName(m)) }, z, pv, valOfInt(bv), intPrec(p, bv, true), m)
						}
					}
				}
				for _, e := range exps {
					if c.Skip() {
						continue
					}
					var z *Dec
					pv, _ := protect(func() { z = decimal.NewDecimal(v, int(e)) })
					ex := valOfInt(big.NewInt(v))
					if ex.Form == fFinite {
						ex.E10 = e
						// exponent arithmetic on the model side must not overflow either
						if e > math.MaxInt64-100 {
							ex.E10 = math.MaxInt64 / 2
						}
						if e < math.MinInt64+100 {
							ex.E10 = math.MinInt64 / 2
						}
					}
					judgeSetter(c, j, func() string { return fmt.Sprintf("NewDecimal(%d, %d)", v, e) }, z, pv, ex, 34, ToNearestEven)
					if pv == nil && z != nil && (z.Prec() != 34 || z.Mode() != decimal.ToNearestEven) {
						c.Fail(fmt.Sprintf("NewDecimal(%d, %d) attributes", v, e), fmt.Sprintf("prec %d mode %v", z.Prec(), z.Mode()))
					}
				}
			},
		})
	}
	// S3: SetRat
	{
		type rat struct{ a, b *big.Int }
		var rats []rat
		for a := int64(0); a <= 40; a++ {
			for b := int64(1); b <= 40; b++ {
				rats = append(rats, rat{big.NewInt(a), big.NewInt(b)})
			}
		}
		for _, k := range []uint{10, 63, 64, 65, 200} {
			for _, jj := range []int64{1, 19, 20, 38, 60} {
				rats = append(rats, rat{new(big.Int).Lsh(big1, k), p10(jj)}, rat{p10(jj), new(big.Int).Lsh(big1, k)}, rat{new(big.Int).Add(p10(jj), big1), new(big.Int).Sub(new(big.Int).Lsh(big1, k), big1)})
			}
		}
		layers = append(layers, Layer{
			Name:   "S3-SetRat",
			Units:  len(rats),
			Bounds: fmt.Sprintf("SetRat(±a/b) for a in 0..40, b in 1..40 and 75 large 2^k/10^j style rationals × receiver prec {1,2,3,5,19,20,34,40} × 6 modes (precision 0 is C09's subject)"),
			Run: func(c *Ctx, u int) {
				r := rats[u]
				for _, neg := range []bool{false, true} {
					q := new(big.Rat).SetFrac(r.a, r.b)
					if neg {
						q.Neg(q)
					}
					for _, p := range setterPrecs[1:] {
						for _, m := range M6 {
							if c.Skip() {
								continue
							}
							pre := setterPres[(int(p)+int(m))%len(setterPres)]
							z := buildPre(pre, p, m)
							arg := new(big.Rat).Set(q)
							pv, _ := protect(func() { z.SetRat(arg) })
							key := func() string {
								return fmt.Sprintf("SetRat(%s) prec=%d mode=%s pre=%s", q, p, modeName(m), preNames[pre])
							}
							if pv != nil {
								c.Fail(key(), fmt.Sprintf("panic: %v", pv))
								continue
							}
							o := Observe(z)
							c.Outcome(o.Hash())
							if msg := Canonical(o); msg != "" {
								c.Fail(key(), "result not canonical: "+msg)
								continue
							}
							var exp RRes
							if q.Sign() == 0 {
								exp = RRes{Form: fZero, Neg: false}
							} else {
								exp = PrepRat(new(big.Int).Abs(q.Num()), q.Denom(), 0, p).Apply(q.Sign() < 0, m)
							}
							if exp.Acc != 0 {
								c.NonTrivial()
							}
							ok := matchValue(o, exp)
							if j == judgeValue && !ok {
								c.Fail(key(), cmpValue(o, exp))
							}
							if j == judgeAttr {
								if msg := attrMsg(o, p, m); msg != "" {
									c.Fail(key(), msg)
								}
								// precision-0 receiver: documented as the largest of a.BitLen(), b.BitLen() and the default
								// precision; the implementation counts decimal digits. Either reading is accepted, nothing below.
								if !c.Skip() {
									z0 := buildPre(pre, 0, m)
									pv0, _ := protect(func() { z0.SetRat(new(big.Rat).Set(q)) })
									lo, hi := uint32(34), uint32(34)
									for _, v := range []*big.Int{q.Num(), q.Denom()} {
										if v.Sign() != 0 && !(q.IsInt() && v == q.Denom()) {
											if d := uint32(ndigits(new(big.Int).Abs(v))); d > lo {
												lo = d
											}
											if b := uint32(v.BitLen()); b > hi {
												hi = b
											}
										}
									}
									if hi < lo {
										hi = lo
									}
									if o0 := Observe(z0); pv0 != nil || o0.Prec < lo || o0.Prec > hi || o0.Mode != m {
										c.Fail(key()+" into a zero-precision receiver", fmt.Sprintf("panic=%v; precision %d mode %s, documented between %d (digits) and %d (bits), mode %s", pv0, o0.Prec, modeName(o0.Mode), lo, hi, modeName(m)))
									}
								}
							}
							if j == judgeAcc {
								want := exp.Acc
								if !ok {
									if q.Sign() == 0 {
										want = int8(CmpVal(o.Val(), Val{Form: fZero}))
									} else {
										want = cmpStoredExact(o, exactRes{neg: q.Sign() < 0, num: new(big.Int).Abs(q.Num()), den: q.Denom()})
									}
								}
								if o.Acc != want {
									c.Fail(key(), fmt.Sprintf("Acc() = %d but sign(stored − exact) = %d; stored %s", o.Acc, want, o))
								}
							}
						}
					}
				}
			},
		})
	}
	// S4: SetMantExp
	{
		var xs []*Opnd
		for _, cf := range []int64{1, 15, 999, 123456789} {
			xs = append(xs, mkInt64(cf, 0, 12, 3), mkInt64(-cf, 0, 34, 5))
		}
		for i, v := range WVecs(2, S7) {
			if i%4 == 0 {
				xs = append(xs, mkWords(i%8 == 0, v, 0, 0, uint8(i%6)))
			}
		}
		for _, f := range []int8{fZero, fInf} {
			xs = append(xs, mkSpecial(f, false, 7, 1), mkSpecial(f, true, 0, 4))
		}
		xs = append(xs, mkSpecial(fZero, true, 7, 2).withStale(3), mkSpecial(fInf, false, 7, 3).withStale(1))
		mexps := []int64{0, 1, -1, 3, -3, MaxExp, MaxExp - 1, MinExp, MinExp + 1}
		offs := []int64{0, 1, -1, 2, -2, 3, -3, 1<<31 - 2, 1<<31 - 1, 1 << 31, 1<<31 + 1, -(1 << 31) + 1, -(1 << 31), -(1 << 31) - 1, -(1 << 31) - 2, 1 << 32, -(1 << 32), 1<<32 - 1, -(1 << 32) + 1, math.MaxInt64, math.MaxInt64 - 1, math.MinInt64, math.MinInt64 + 1}
		layers = append(layers, Layer{
			Name:   "S4-SetMantExp",
			Units:  len(xs),
			Bounds: fmt.Sprintf("z.SetMantExp(mant, e): mant from %d values (own precision and mode) placed at exponents %v, e in %d offsets incl. ±2^31±2, ±2^32, int64 extremes; receiver distinct or identical to mant; 3 receiver pre-states; mant Exact or still carrying Below/Above from a real rounding", len(xs), mexps, len(offs)),
			Run: func(c *Ctx, u int) {
				for _, me := range mexps {
					mo := *xs[u]
					if mo.Form == fFinite {
						mo.Exp = me
						mo.V.E10 = me - int64(len(mo.Words))*DW
					} else if me != 0 {
						continue
					}
					for _, off := range offs {
						for _, kind := range []int{0, 1, 2, 3, 4, 5} {
							if c.Skip() {
								continue
							}
							mant := mo.Build()
							if kind >= 4 {
								// mant still carries Below/Above from the rounding that produced it
								mant = mo.buildVariant(1)
								if mant.Acc() == 0 {
									continue
								}
							}
							var z *Dec
							switch kind {
							case 0, 4:
								z = new(Dec)
							case 1:
								z = buildPre(preLonger, 3, ToZero)
							case 2:
								z = buildPre(preNegInf, 50, AwayFromZero)
							case 3, 5:
								z = mant
							}
							pv, _ := protect(func() { z.SetMantExp(mant, int(off)) })
							key := func() string {
								return fmt.Sprintf("SetMantExp(mant=%s@exp%d, %d) receiver=%d", xs[u], me, off, kind)
							}
							ex := mo.V
							if ex.Form == fFinite {
								// exact value mant × 10^off, model exponent kept in range of int64
								o := off
								if o > 1<<40 {
									o = 1 << 40
								}
								if o < -(1 << 40) {
									o = -(1 << 40)
								}
								ex.E10 += o
							}
							judgeSetter(c, j, key, z, pv, ex, mo.Prec, mo.Mode)
							if pv == nil && j == judgeValue {
								if ob := Observe(z); ob.Prec != mo.Prec || ob.Mode != mo.Mode {
									c.Fail(key()+" attributes", fmt.Sprintf("result must have mant's precision and mode (%d, %d), got %s", mo.Prec, mo.Mode, ob))
								}
								if kind != 3 && kind != 5 {
									if msg := mo.CheckBuilt2(Observe(mant)); msg != "" {
										c.Fail(key()+" operand", "mant modified: "+msg)
									}
								}
							}
						}
					}
				}
			},
		})
	}
	return layers
}

func nil2(v int64) *big.Int { return big.NewInt(v) }

// setterAccLayers: C02's projection of the setter spaces (plus base-10 parsing, added by parse.go).
func setterAccLayers(tier string) []Layer {
	ls := setterLayers(judgeAcc, tier)
	ls = append(ls, parseAccLayers(tier)...)
	return ls
}

// ---------------------------------------------------------------------------
// C14 getters: Int, Int64, Uint64, Rat, IsInt, MinPrec

func getterCase(c *Ctx, xo *Opnd) {
	getterCaseOn(c, xo, xo.Build(), "")
	if xo.Form == fFinite {
		// the same value still carrying Below/Above from the rounding that produced it: getters depend on the value only
		if xv := xo.buildVariant(1); xv.Acc() != 0 {
			getterCaseOn(c, xo, xv, " [x.Acc() != Exact]")
		}
		// precision is an attribute: the largest one changes nothing
		xh := *xo
		xh.Prec = math.MaxUint32
		getterCaseOn(c, &xh, xh.Build(), " [x.Prec() == MaxPrec]")
	}
}

func getterCaseOn(c *Ctx, xo *Opnd, x *Dec, tag string) {
	if c.Skip() {
		return
	}
	key := func(op string) string { return fmt.Sprintf("%s x=%s%s", op, xo, tag) }
	v := xo.V
	// exact integer part (toward zero) and whether a fraction was discarded
	var ip *big.Int
	frac := false
	if v.Form == fFinite {
		if v.E10 >= 0 {
			ip = new(big.Int).Mul(v.Coef, p10(v.E10))
		} else {
			r := new(big.Int)
			ip, r = new(big.Int).QuoRem(v.Coef, p10(-v.E10), r)
			frac = r.Sign() != 0
		}
		if v.Neg {
			ip.Neg(ip)
		}
		if frac {
			c.NonTrivial()
		}
	}
	accTrunc := func() int8 { // sign(returned − x) after truncation toward zero
		if !frac {
			return 0
		}
		if v.Neg {
			return 1
		}
		return -1
	}
	var keepInt *big.Int // results kept while other values are converted (retention check at the end)
	var keepRat, wantRat *big.Rat
	// Int
	{
		var got *big.Int
		var acc decimal.Accuracy
		pv, _ := protect(func() { got, acc = x.Int(nil) })
		keepInt = got
		switch {
		case pv != nil:
			c.Fail(key("Int"), fmt.Sprintf("panic: %v", pv))
		case v.Form == fInf:
			want := int8(-1)
			if v.Neg {
				want = 1
			}
			if got != nil || int8(acc) != want {
				c.Fail(key("Int"), fmt.Sprintf("Int(±Inf) = %v, %v; want nil, %d", got, acc, want))
			}
		case v.Form == fZero:
			if got == nil || got.Sign() != 0 || acc != 0 {
				c.Fail(key("Int"), fmt.Sprintf("got %v, %v", got, acc))
			}
		default:
			if got == nil || got.Cmp(ip) != 0 || int8(acc) != accTrunc() {
				c.Fail(key("Int"), fmt.Sprintf("got %v acc %v, want %v acc %d", got, acc, ip, accTrunc()))
			}
		}
		// with a supplied big.Int holding garbage
		if v.Form == fFinite {
			z := new(big.Int).Lsh(big1, 300)
			z.Neg(z)
			pv, _ := protect(func() { got, _ = x.Int(z) })
			if pv != nil || got != z || got.Cmp(ip) != 0 {
				c.Fail(key("Int(z)"), fmt.Sprintf("got %v (panic %v), want %v stored in the supplied Int", got, pv, ip))
			}
		}
	}
	// Int64
	{
		var got int64
		var acc decimal.Accuracy
		pv, _ := protect(func() { got, acc = x.Int64() })
		var want int64
		var wacc int8
		switch {
		case v.Form == fZero:
		case v.Form == fInf || !ip.IsInt64():
			if v.Neg {
				want, wacc = math.MinInt64, 1
			} else {
				want, wacc = math.MaxInt64, -1
			}
		default:
			want, wacc = ip.Int64(), accTrunc()
		}
		if pv != nil || got != want || int8(acc) != wacc {
			c.Fail(key("Int64"), fmt.Sprintf("got %d acc %v (panic %v), want %d acc %d", got, acc, pv, want, wacc))
		}
	}
	// Uint64
	{
		var got uint64
		var acc decimal.Accuracy
		pv, _ := protect(func() { got, acc = x.Uint64() })
		var want uint64
		var wacc int8
		switch {
		case v.Form == fZero:
		case v.Neg:
			want, wacc = 0, 1
		case v.Form == fInf || !ip.IsUint64():
			want, wacc = math.MaxUint64, -1
		default:
			want, wacc = ip.Uint64(), accTrunc()
		}
		if pv != nil || got != want || int8(acc) != wacc {
			c.Fail(key("Uint64"), fmt.Sprintf("got %d acc %v (panic %v), want %d acc %d", got, acc, pv, want, wacc))
		}
	}
	// Rat (skip astronomically large expansions)
	if v.Form != fFinite || (v.E10 < 5000 && v.E10 > -5000) {
		var got *big.Rat
		var acc decimal.Accuracy
		pv, _ := protect(func() { got, acc = x.Rat(nil) })
		switch {
		case pv != nil:
			c.Fail(key("Rat"), fmt.Sprintf("panic: %v", pv))
		case v.Form == fInf:
			want := int8(-1)
			if v.Neg {
				want = 1
			}
			if got != nil || int8(acc) != want {
				c.Fail(key("Rat"), fmt.Sprintf("Rat(±Inf) = %v, %v", got, acc))
			}
		default:
			want := new(big.Rat)
			if v.Form == fFinite {
				if v.E10 >= 0 {
					want.SetInt(new(big.Int).Mul(v.Coef, p10(v.E10)))
				} else {
					want.SetFrac(v.Coef, p10(-v.E10))
				}
				if v.Neg {
					want.Neg(want)
				}
			}
			if got == nil || got.Cmp(want) != 0 || acc != 0 {
				c.Fail(key("Rat"), fmt.Sprintf("got %v acc %v, want %v Exact", got, acc, want))
			}
			keepRat, wantRat = got, want
			if v.Form == fFinite {
				// supplied Rat with garbage
				z := big.NewRat(-355, 113)
				pv, _ := protect(func() { got, _ = x.Rat(z) })
				if pv != nil || got.Cmp(want) != 0 {
					c.Fail(key("Rat(z)"), fmt.Sprintf("got %v (panic %v), want %v", got, pv, want))
				}
			}
		}
	}
	// IsInt, MinPrec
	{
		wantInt := v.Form == fZero || (v.Form == fFinite && !frac)
		if x.IsInt() != wantInt {
			c.Fail(key("IsInt"), fmt.Sprintf("got %v want %v", x.IsInt(), wantInt))
		}
		wantMP := uint(0)
		if v.Form == fFinite {
			wantMP = uint(ndigits(v.Norm().Coef))
		}
		if x.MinPrec() != wantMP {
			c.Fail(key("MinPrec"), fmt.Sprintf("got %d want %d", x.MinPrec(), wantMP))
		}
	}
	// retention: the big.Int / big.Rat returned above must not be invalidated by conversions of other values
	if v.Form == fFinite && (keepInt != nil || keepRat != nil) {
		for _, o := range retentionOthers() {
			protect(func() {
				o.Int(nil)
				o.Rat(nil)
				o.Float(nil)
				o.Int64()
				o.Float64()
			})
		}
		if keepInt != nil && keepInt.Cmp(ip) != 0 {
			c.Fail(key("Int retention"), fmt.Sprintf("the returned *big.Int changed to %v after conversions of other values, want %v", keepInt, ip))
		}
		if keepRat != nil && wantRat != nil && keepRat.Cmp(wantRat) != 0 {
			c.Fail(key("Rat retention"), fmt.Sprintf("the returned *big.Rat changed to %v after conversions of other values, want %v", keepRat, wantRat))
		}
	}
	if msg := xo.CheckBuilt2(Observe(x)); msg != "" {
		c.Fail(key("operand"), "x modified by a getter: "+msg)
	}
	if c.WantSample() {
		c.Sample("getters x=" + xo.String())
	}
}

var retOthers []*Dec

// retentionOthers: a short and a 40-word value converted between a getter call and the re-inspection of its result.
func retentionOthers() []*Dec {
	if retOthers == nil {
		w := make([]uint64, 40)
		for i := range w {
			w[i] = BW - 1 - uint64(i)
		}
		retOthers = []*Dec{mkInt64(-98765, -2, 34, 0).Build(), mkWords(false, w, 800, 0, 0).Build()}
	}
	return retOthers
}

func getterLayers(tier string) []Layer {
	thorough := tier == "thorough"
	var layers []Layer
	// G1: boundary-centred values v + f
	{
		var bases []*big.Int
		for _, b := range []*big.Int{new(big.Int).Lsh(big1, 63), new(big.Int).Lsh(big1, 64), p10(19), p10(38), p10(18), p10(20), big.NewInt(0), big.NewInt(1)} {
			for d := int64(-2); d <= 2; d++ {
				v := new(big.Int).Add(b, big.NewInt(d))
				bases = append(bases, v)
			}
		}
		fracs := []struct {
			c int64
			e int64
		}{{0, 0}, {1, -1}, {5, -1}, {9, -1}, {99999999999999999, -17}, {1, -20}, {1, -40}, {5, -19}}
		layers = append(layers, Layer{
			Name:   "G1-boundaries",
			Units:  len(bases),
			Bounds: "x = ±(v + f), v in {2^63, 2^64, 10^18, 10^19, 10^20, 10^38, 0, 1} + {-2..2}, f in {0, .1, .5, .9, .99999999999999999, 10^-20, 10^-40, 5·10^-19}: Int, Int64, Uint64, Rat, IsInt, MinPrec",
			Run: func(c *Ctx, u int) {
				for _, f := range fracs {
					for _, neg := range []bool{false, true} {
						// v·10^k + f.c with common exponent f.e
						n := new(big.Int).Mul(bases[u], p10(-f.e))
						n.Add(n, big.NewInt(f.c))
						if n.Sign() <= 0 {
							if n.Sign() == 0 {
								getterCase(c, mkSpecial(fZero, neg, 34, 0))
							}
							continue
						}
						getterCase(c, mkCoef(neg, n, f.e, uint32(ndigits(n))+3, 0))
					}
				}
			},
		})
	}
	// G2: digit-level × exponents, word-edge × exponents, specials
	{
		var xs []*Opnd
		k := 3
		if thorough {
			k = 4
		}
		for _, cf := range DCoefs(k) {
			for e := int64(-3); e <= 22; e++ {
				xs = append(xs, mkInt64(cf, e, 34, 0), mkInt64(-cf, e, 34, 0))
			}
		}
		for _, v := range WVecs(3, S7) {
			for _, e := range []int64{-20, -1, 0, 1, 18, 19, 20, 21, 37, 38, 39, 57, 58, 60} {
				xs = append(xs, mkWords(false, v, e, 0, 0), mkWords(true, v, e, 0, 0))
			}
		}
		// every position of the decimal point inside (and just outside) a 3-word mantissa
		for _, v := range WVecs(3, []uint64{0, BW - 1, 8123456789012999999}) {
			for e := int64(-1); e <= 58; e++ {
				xs = append(xs, mkWords(false, v, e, 0, 0), mkWords(true, v, e, 0, 0))
			}
		}
		for _, f := range []int8{fZero, fInf} {
			xs = append(xs, mkSpecial(f, false, 0, 0), mkSpecial(f, true, 0, 0))
		}
		xs = append(xs, staleSpecials(34, 0)...) // ±0/±Inf in variables that held finite values before
		for _, e := range []int64{MaxExp, MinExp, 4000, -4000} {
			o := mkInt64(123, 0, 34, 0)
			o.Exp = e
			o.V.E10 = e - int64(len(o.Words))*DW
			xs = append(xs, o)
		}
		const chunk = 64
		layers = append(layers, Layer{
			Name:   "G2-values",
			Units:  (len(xs) + chunk - 1) / chunk,
			Bounds: fmt.Sprintf("x in ±D(%d)×10^[-3..22] ∪ ±W(3,S7)×14 exponents (-20..60) ∪ ±W(3,{0,B−1,8123456789012999999})×every exponent −1..58 ∪ {±0, ±Inf (also with a history: the variable held a finite value before), huge/tiny exponents} (%d values): all getters", k, len(xs)),
			Run: func(c *Ctx, u int) {
				for i := u * chunk; i < (u+1)*chunk && i < len(xs); i++ {
					if xs[i].Form == fFinite && (xs[i].Exp > 100000 || xs[i].Exp < -100000) {
						// Int/Rat of 10^(2^31) cannot be materialised; only the cheap getters
						if !c.Skip() {
							x := xs[i].Build()
							i64, a := x.Int64()
							u64, b := x.Uint64()
							if xs[i].Exp > 0 && (i64 != math.MaxInt64 || a != decimal.Below || u64 != math.MaxUint64 || b != decimal.Below) {
								c.Fail("Int64/Uint64 x="+xs[i].String(), fmt.Sprintf("got %d %v %d %v", i64, a, u64, b))
							}
							if xs[i].Exp < 0 && (i64 != 0 || a != decimal.Below || u64 != 0 || b != decimal.Below || x.IsInt()) {
								c.Fail("Int64/Uint64 x="+xs[i].String(), fmt.Sprintf("got %d %v %d %v IsInt=%v", i64, a, u64, b, x.IsInt()))
							}
						}
						continue
					}
					getterCase(c, xs[i])
				}
			},
		})
	}
	// G3: long mantissas (binary <-> decimal conversion loops of Int, Rat)
	{
		var lens []int
		for n := 1; n <= 80; n++ {
			lens = append(lens, n)
		}
		lens = append(lens, 100, 143, 144, 145, 150, 217)
		layers = append(layers, Layer{
			Name:   "G3-long-mantissas",
			Units:  len(lens),
			Bounds: "Int, Int64, Uint64, Rat, IsInt, MinPrec on n-word mantissas for every n in 1..80 ∪ {100,143,144,145,150,217} (uniform words B−1 / 7·10^18+… / 1 with a top-word exception) as integers (exponent = 19n, 19n±1, 19n+40) and with a fractional tail",
			Run: func(c *Ctx, u int) {
				n := lens[u]
				for _, w := range []uint64{BW - 1, 7777777777777777777, 1} {
					for _, top := range []uint64{w, BW - 1, 8 * (BW / 10), BW / 10} {
						v := make([]uint64, n)
						for i := range v {
							v[i] = w
						}
						v[n-1] = top
						for _, e := range []int64{int64(19 * n), int64(19*n) - 1, int64(19*n) + 1, int64(19*n) + 40, int64(19*n) - 19, 5} {
							for _, neg := range []bool{false, true} {
								getterCase(c, mkWords(neg, v, e, 0, 0))
							}
						}
					}
				}
			},
		})
	}
	// G4: sparse long mantissas: one non-zero word at every index below the top word, the decimal point
	// just above / just below / inside that word (loops that scan the words for a fractional part or
	// for trailing zeros must look at every one of them)
	{
		lens := []int{3, 4, 5, 6, 7, 8, 9, 12, 13, 16, 17, 20, 33}
		layers = append(layers, Layer{
			Name:   "G4-sparse-long-mantissas",
			Units:  len(lens),
			Bounds: fmt.Sprintf("all getters on n-word mantissas (n in %v) with top word {10^18, 5·10^18+1}, zero words and one word in {1, 10^18, 5·10^18} at every index i below the top; decimal point at 19(n−i), 19(n−i)−1, 19(n−i−1), 19(n−i−1)+1, 19n; both signs", lens),
			Run: func(c *Ctx, u int) {
				n := lens[u]
				for i := 0; i < n-1; i++ {
					for _, w := range []uint64{1, BW / 10, BW / 2} {
						for _, top := range []uint64{BW / 10, BW/2 + 1} {
							v := make([]uint64, n)
							v[n-1], v[i] = top, w
							for _, e := range []int64{int64(19 * (n - i)), int64(19*(n-i)) - 1, int64(19 * (n - i - 1)), int64(19*(n-i-1)) + 1, int64(19 * n)} {
								for _, neg := range []bool{false, true} {
									getterCase(c, mkWords(neg, v, e, 0, 0))
								}
							}
						}
					}
				}
			},
		})
	}
	return layers
}

// ---------------------------------------------------------------------------
// C20: SetBitsExp / BitsExp / MantExp

func rawLayers(tier string) []Layer {
	thorough := tier == "thorough"
	var layers []Layer
	L := 4
	if thorough {
		L = 5
	}
	vecs := WVecsAll(L, S7)
	exps := []int64{0, 1, -1, 19, -40, 40, MaxExp, MaxExp - 1, MaxExp + 1, MaxExp + 19, MaxExp + 57, MinExp, MinExp + 1, MinExp - 1, MinExp + 18, MinExp + 19, MinExp + 38, math.MaxInt64, math.MaxInt64 - 40, math.MinInt64, math.MinInt64 + 40}
	precs := []uint32{0, 1, 5, 19, 20, 38, 57, 100}
	layers = append(layers, Layer{
		Name:   "R1-SetBitsExp",
		Units:  len(vecs),
		Bounds: fmt.Sprintf("SetBitsExp(mant, exp) for every word vector of length 0..%d over S7 (%d vectors: all-zero, leading zero words, low zero words, unnormalised top words) × %d exponents incl. range ends and int64 extremes × receiver prec %v × 6 modes × receiver pre-states {fresh, held-longer, -Inf, the argument is the receiver's own BitsExp() slice edited in place}; BitsExp afterwards", L, len(vecs), len(exps), precs),
		Run: func(c *Ctx, u int) {
			raw := vecs[u]
			ci := wordsToInt(raw)
			for _, e := range exps {
				for _, p := range precs {
					for _, m := range M6 {
						for _, pre := range []int{preFresh, preLonger, preNegInf, -1} {
							if pre == -1 && (len(raw) == 0 || (p != 0 && int(p) < DW*len(raw))) {
								continue // own-slice case needs a receiver whose mantissa has len(raw) words
							}
							if c.Skip() {
								continue
							}
							var z *Dec
							// a negative receiver must become positive
							buf := toWords(raw)
							pn := ""
							if pre >= 0 {
								z = buildPre(pre, p, m)
								pn = preNames[pre]
							} else {
								// the argument is the receiver's own mantissa slice (BitsExp), edited in place
								pn = "own-slice-edited-in-place"
								z = fresh(p, m)
								init := make([]Word, len(raw))
								for i := range init {
									init[i] = 7777777777777777777
								}
								z.SetBitsExp(init, 5)
								z.Neg(z)
								own, _ := z.BitsExp()
								if len(own) != len(raw) {
									c.Count("own_slice_length_differs", 1)
									continue
								}
								copy(own, buf)
								buf = own
							}
							pv, _ := protect(func() { z.SetBitsExp(buf, e) })
							key := func() string {
								return fmt.Sprintf("SetBitsExp(%s, %d) prec=%d mode=%s pre=%s", wordsKey(raw), e, p, modeName(m), pn)
							}
							ex := Val{Form: fZero}
							if ci.Sign() != 0 {
								ee := e
								if ee > 1<<40 {
									ee = 1 << 40
								}
								if ee < -(1 << 40) {
									ee = -(1 << 40)
								}
								ex = Val{Form: fFinite, Coef: ci, E10: ee - int64(len(raw))*DW}
							}
							pp := p
							if pp == 0 {
								// no documented rule: the value must be stored exactly (precision at least the digit count)
								pp = uint32(len(raw)*DW + 34)
							}
							judgeSetter(c, judgeValue, key, z, pv, ex, pp, m)
							if pv != nil {
								continue
							}
							o := Observe(z)
							if o.Mode != m || (p != 0 && o.Prec != p) {
								c.Fail(key()+" attributes", fmt.Sprintf("precision/mode changed: %s", o))
							}
							// BitsExp denotes exactly the receiver's magnitude and aliases its buffer
							bm, be := z.BitsExp()
							if o.Form == fFinite {
								bv := Val{Form: fFinite, Coef: wordsToInt(fromWords(bm)), E10: int64(be) - int64(len(bm))*DW}
								if bv.Coef.Sign() == 0 || !bv.Equal(Val{Form: fFinite, Coef: o.Val().Coef, E10: o.Val().E10}) {
									c.Fail(key()+" BitsExp", fmt.Sprintf("BitsExp = %v, %d does not denote |z| = %s", bm, be, o.Val()))
								}
								if len(bm) > 0 && len(buf) > 0 && p != 0 && pre == preFresh {
									// result and mant share the underlying array (documented)
									if &bm[0] != &buf[0] && &bm[len(bm)-1] != &buf[len(buf)-1] && cap(buf) >= len(bm) {
										// sharing is documented but not part of the property's statement: counted, not judged
										c.Count("setbitsexp_did_not_share_buffer", 1)
									}
								}
							} else if len(bm) != 0 {
								c.Fail(key()+" BitsExp", fmt.Sprintf("BitsExp of a non-finite value returned %d words", len(bm)))
							}
						}
					}
				}
			}
		},
	})
	// R3: long slices whose only non-zero discarded digit sits in one low word, at every position
	{
		lens := []int{3, 4, 5, 6, 7, 8, 9, 10, 12, 13, 16, 17, 20}
		layers = append(layers, Layer{
			Name:   "R3-sticky-word-position",
			Units:  len(lens),
			Bounds: fmt.Sprintf("SetBitsExp of n-word slices (n in %v): top word (last digit even/odd) + rounding word {0, 5·10^18} + zero words with one word in {1, 10^18} at every lower position; receiver precision {19, 20}; 6 modes; receiver pre-states {fresh, -Inf}", lens),
			Run: func(c *Ctx, u int) {
				n := lens[u]
				for pos := 0; pos < n-2; pos++ {
					for _, sw := range []uint64{1, BW / 10} {
						for _, rw := range []uint64{0, BW / 2} {
							for _, last := range []uint64{BW/10 + 2, BW/10 + 3} {
								raw := make([]uint64, n)
								raw[n-1], raw[n-2], raw[pos] = last, rw, sw
								ci := wordsToInt(raw)
								for _, p := range []uint32{19, 20} {
									for _, m := range M6 {
										for _, pre := range []int{preFresh, preNegInf} {
											if c.Skip() {
												continue
											}
											z := buildPre(pre, p, m)
											pv, _ := protect(func() { z.SetBitsExp(toWords(raw), 7) })
											key := func() string {
												return fmt.Sprintf("SetBitsExp(%s, 7) prec=%d mode=%s pre=%s", wordsKey(raw), p, modeName(m), preNames[pre])
											}
											judgeSetter(c, judgeValue, key, z, pv, Val{Form: fFinite, Coef: ci, E10: 7 - int64(n)*DW}, p, m)
										}
									}
								}
							}
						}
					}
				}
			},
		})
	}
	// R4: every normalisation shift 0..18 (top word with 1..19 digits) over lower words that stress the
	// split of a word into high and low digits at that shift
	{
		low := []uint64{0, 1, BW - 1, BW / 2, BW/2 - 1, 8123456789012999999, 7160864685202999999, 1999999999999999999, 9000000000000000001, 5555555555555555555, 1234567890123456789}
		layers = append(layers, Layer{
			Name:   "R4-every-normalisation-shift",
			Units:  19,
			Bounds: fmt.Sprintf("SetBitsExp of 2- and 3-word slices whose top word has d = 1..19 digits (10^(d-1), 10^d-1, 314159…) over lower words from %v (all pairs); receiver precision {0, 19, 30, 58}; modes Even/ToZero/AwayFromZero; receiver pre-states {fresh, held-longer}; BitsExp afterwards has every word below the base", low),
			Run: func(c *Ctx, u int) {
				d := u + 1
				pd := uint64(1)
				for i := 1; i < d; i++ {
					pd *= 10
				}
				tops := []uint64{pd, pd*10 - 1, 3141592653589793238 / (BW / 10 / pd)}
				for _, top := range tops {
					for _, a := range low {
						for bi := -1; bi < len(low); bi++ {
							raw := []uint64{a, top}
							if bi >= 0 {
								raw = []uint64{low[bi], a, top}
							}
							ci := wordsToInt(raw)
							for _, p := range []uint32{0, 19, 30, 58} {
								for _, m := range []uint8{ToNearestEven, ToZero, AwayFromZero} {
									for _, pre := range []int{preFresh, preLonger} {
										if c.Skip() {
											continue
										}
										z := buildPre(pre, p, m)
										pv, _ := protect(func() { z.SetBitsExp(toWords(raw), 3) })
										key := func() string {
											return fmt.Sprintf("SetBitsExp(%s, 3) prec=%d mode=%s pre=%s", wordsKey(raw), p, modeName(m), preNames[pre])
										}
										pp := p
										if pp == 0 {
											pp = uint32(len(raw)*DW + 34)
										}
										judgeSetter(c, judgeValue, key, z, pv, Val{Form: fFinite, Coef: ci, E10: 3 - int64(len(raw))*DW}, pp, m)
										if pv == nil {
											bm, _ := z.BitsExp()
											for _, w := range bm {
												if uint64(w) >= BW {
													c.Fail(key()+" BitsExp", fmt.Sprintf("word %d is not below the base", uint64(w)))
												}
											}
										}
									}
								}
							}
						}
					}
				}
			},
		})
	}
	// R2: MantExp / SetMantExp inverse
	{
		var xs []*Opnd
		for i, cf := range DCoefs(2) {
			xs = append(xs, mkInt64(cf, 0, uint32(3+i%30), uint8(i%6)))
		}
		for i, v := range WVecs(3, S7) {
			xs = append(xs, mkWords(i%2 == 0, v, 0, 0, uint8(i%6)))
		}
		xexps := []int64{0, 1, -1, 2, -3, MaxExp, MaxExp - 1, MinExp, MinExp + 1, 12345, -54321}
		layers = append(layers, Layer{
			Name:   "R2-MantExp-inverse",
			Units:  len(xs),
			Bounds: fmt.Sprintf("x from D(2) ∪ W(3,S7) (%d values, own precision/mode) at exponents %v, and ±0, ±Inf: e = x.MantExp(mant): mant in [0.1,1), same sign/precision/mode, x == mant×10^e; SetMantExp(mant, e) == x; MantExp(nil); x.MantExp(x) aliasing", len(xs), xexps),
			Run: func(c *Ctx, u int) {
				for _, xe := range xexps {
					if c.Skip() {
						continue
					}
					xo := *xs[u]
					xo.Exp = xe
					xo.V.E10 = xe - int64(len(xo.Words))*DW
					mantExpCase(c, &xo)
				}
				if u < 4 {
					if !c.Skip() {
						for k := range staleKinds {
							mantExpCase(c, mkSpecial([]int8{fZero, fInf}[u%2], u >= 2, 9, ToPositiveInf).withStale(int8(k)))
						}
					}
				}
			},
		})
	}
	return layers
}

func mantExpCase(c *Ctx, xo *Opnd) {
	x := xo.Build()
	key := fmt.Sprintf("MantExp x=%s@exp%d", xo, xo.Exp)
	mant := buildPre(preLonger, 3, ToZero)
	var e int
	pv, _ := protect(func() { e = x.MantExp(mant) })
	if pv != nil {
		c.Fail(key, fmt.Sprintf("panic: %v", pv))
		return
	}
	c.NonTrivial()
	mo := Observe(mant)
	if msg := Canonical(mo); msg != "" {
		c.Fail(key, "mant not canonical: "+msg)
		return
	}
	if xo.Form != fFinite {
		if e != 0 || mo.Form != xo.Form || mo.Neg != xo.Neg {
			c.Fail(key, fmt.Sprintf("special: e=%d mant=%s", e, mo))
		}
		if en := x.MantExp(nil); en != 0 {
			c.Fail(key, fmt.Sprintf("special: MantExp(nil) = %d, want 0", en))
		}
		x2 := xo.Build()
		if e2 := x2.MantExp(x2); e2 != 0 || Observe(x2).Form != xo.Form || Observe(x2).Neg != xo.Neg {
			c.Fail(key+" aliased", fmt.Sprintf("special: x.MantExp(x) = %d, x = %s", e2, Observe(x2)))
		}
		return
	}
	if int64(e) != xo.Exp || x.MantExp(nil) != e {
		c.Fail(key, fmt.Sprintf("exponent %d (MantExp(nil) = %d), want %d", e, x.MantExp(nil), xo.Exp))
		return
	}
	if mo.Form != fFinite || mo.Exp != 0 || mo.Neg != xo.Neg || mo.Prec != xo.Prec || mo.Mode != xo.Mode {
		c.Fail(key, fmt.Sprintf("mant = %s: want exponent 0 (0.1 <= |mant| < 1), x's sign, precision %d and mode %d", mo, xo.Prec, xo.Mode))
		return
	}
	// x == mant × 10^e
	mv := mo.Val()
	mv.E10 += int64(e)
	if !mv.Equal(xo.V) {
		c.Fail(key, fmt.Sprintf("mant×10^e = %s != x = %s", mv.Norm(), xo.V.Norm()))
		return
	}
	if msg := xo.CheckBuilt(x); msg != "" {
		c.Fail(key, "x modified: "+msg)
		return
	}
	// inverse
	z := buildPre(preInf, 2, AwayFromZero)
	pv, _ = protect(func() { z.SetMantExp(mant, e) })
	if pv != nil {
		c.Fail(key+" SetMantExp", fmt.Sprintf("panic: %v", pv))
		return
	}
	if zo := Observe(z); !zo.Val().Equal(xo.V) || z.Cmp(x) != 0 || zo.Prec != xo.Prec || zo.Mode != xo.Mode {
		c.Fail(key+" SetMantExp", fmt.Sprintf("SetMantExp(mant, MantExp(mant)) = %s, want x = %s", zo, xo))
		return
	}
	// aliasing: x.MantExp(x) sets x to its mantissa
	x2 := xo.Build()
	e2 := x2.MantExp(x2)
	if o2 := Observe(x2); e2 != e || !o2.Val().Equal(mo.Val()) || o2.Exp != 0 {
		c.Fail(key+" aliased", fmt.Sprintf("x.MantExp(x) = %d, x = %s; want %d, %s", e2, o2, e, mo))
	}
	if c.WantSample() {
		c.Sample(fmt.Sprintf("%s -> mant %s e=%d", key, mo, e))
	}
}

func init() {
	register(&Property{
		ID: "C14", Level: "model_checking",
		Rule: "a case is (getter set, x) or (setter, argument, receiver precision, mode, pre-state); distinct by construction; non-trivial when a fraction is discarded (getters) or the argument needs rounding (setters)",
		Assumptions: []string{
			"oracle: big.Int / big.Rat arithmetic",
			"Int/Rat are not materialised for |exponent| > 100000 (only Int64/Uint64/IsInt there)",
			"accuracy of the setters is judged by C02, precision-0 rules by C09",
		},
		Layers: func(tier string) []Layer { return append(getterLayers(tier), setterLayers(judgeValue, tier)[:3]...) },
	})
	register(&Property{
		ID: "C20", Level: "model_checking",
		Rule: "a case is (raw word vector, exponent, receiver precision, mode, pre-state) or (x, exponent) for the MantExp laws; non-trivial when the vector needs rounding, normalisation or stripping, or the exponent leaves the range",
		Assumptions: []string{
			"for a precision-0 receiver the property requires a value (no panic); the check demands the exact value with any precision >= the digit count",
			"buffer sharing between SetBitsExp's argument and the result is counted, not judged",
		},
		Layers: func(tier string) []Layer {
			ls := rawLayers(tier)
			return append(ls, setterLayers(judgeValue, tier)[3]) // S4-SetMantExp
		},
	})
}
