package main

func setterAccLayers(tier string) []Layer { return nil }
