package main

// C04: IEEE-754 special values; exactly the invalid operations panic, with
// ErrNaN, leaving a valid receiver; nothing else panics.

import (
	"bytes"
	"encoding/gob"
	"encoding/json"
	"fmt"
	"math"
	"math/big"

	"github.com/db47h/decimal"
)

// class representatives: index 0..5 = -Inf, -finite, -0, +0, +finite, +Inf
func classReps(mag int, prec uint32, mode uint8) []*Opnd {
	var fin *Opnd
	switch mag {
	case 0:
		fin = mkInt64(7, -1, 0+prec, mode)
	case 1:
		fin = mkWords(false, []uint64{BW - 1}, 3, 0, mode)
	case 2:
		fin = mkWords(false, []uint64{BW / 2, 0, BW - 2}, -25, 0, mode)
	case 3:
		fin = mkInt64(15, 0, prec, mode) // perfect-square friendly small value 15 → 1.5e1
	case 4: // at the top of the exponent range: products and sums overflow
		fin = mkInt64(7, 0, prec, mode)
		fin.Exp, fin.V.E10 = MaxExp, MaxExp-DW
	case 5: // at the bottom of the exponent range: products and quotients underflow
		fin = mkInt64(7, 0, prec, mode)
		fin.Exp, fin.V.E10 = MinExp, MinExp-DW
	}
	if prec != 0 && fin.Prec < prec {
		fin.Prec = prec
	}
	neg := *fin
	neg.Neg, neg.V.Neg = true, true
	return []*Opnd{
		mkSpecial(fInf, true, prec, mode), &neg, mkSpecial(fZero, true, prec, mode),
		mkSpecial(fZero, false, prec, mode), fin, mkSpecial(fInf, false, prec, mode),
	}
}

// histories given to special operands in P1 (indices into staleKinds)
var p1Stale = []int8{0, 1, 3}

var classNames = []string{"-Inf", "-fin", "-0", "+0", "+fin", "+Inf"}

func effPrec(op int, zprec uint32, vals []*Opnd) uint32 {
	if zprec != 0 {
		return zprec
	}
	p := uint32(0)
	for _, v := range vals {
		if v.Prec > p {
			p = v.Prec
		}
	}
	return p
}

func specialCase(c *Ctx, op int, vals []*Opnd, zprec uint32, mode uint8, pre int, tag string) {
	spec := opSpecs[op]
	part := make([]int, spec.Arity+1)
	for i := range part {
		part[i] = i
	}
	specialCasePart(c, op, part, vals, zprec, mode, pre, tag)
}

// specialCasePart: as specialCase under an aliasing partition of {z, operands}
// (operands in one class must be the same description; an operand aliased to
// the receiver takes the receiver's precision and mode).
func specialCasePart(c *Ctx, op int, part []int, vals0 []*Opnd, zprec uint32, mode uint8, pre int, tag string) {
	if c.Skip() {
		return
	}
	spec := opSpecs[op]
	vals := vals0
	identity := true
	for i := 1; i <= spec.Arity; i++ {
		if part[i] != i {
			identity = false
		}
	}
	if !identity {
		vals = make([]*Opnd, len(vals0))
		for i := range vals0 {
			v := *vals0[i]
			if part[i+1] == 0 {
				v.Prec, v.Mode = zprec, mode
			}
			vals[i] = &v
		}
		// every member of a class carries the description of the class's first member
		for i := range vals {
			for k := 0; k < i; k++ {
				if part[k+1] == part[i+1] {
					vals[i] = vals[k]
					break
				}
			}
		}
	}
	ep := effPrec(op, zprec, vals)
	var exp RRes
	allSpecial := true
	for _, v := range vals {
		if v.Form == fFinite {
			allSpecial = false
		}
	}
	if ep == 0 && !allSpecial {
		panic("specialCase: effective precision 0 with a finite operand")
	}
	if ep == 0 {
		ep = 1 // irrelevant: no finite value is rounded
	}
	exp = spec.Model(valsOf(vals), ep, mode)
	o, pv, isNaN, after, _ := execPart(spec, part, vals, zprec, mode, pre)
	c.Outcome(o.Hash() ^ b2u(pv != nil))
	if c.prop.ID == "C09" {
		// attribute judge only: the receiver ends with the documented precision and its own mode
		// (also on the paths that end in a special value or go through an overflowing intermediate)
		if pv == nil {
			c.NonTrivial()
			wantPrec := effPrec(op, zprec, vals)
			if o.Prec != wantPrec || o.Mode != mode {
				c.Fail(fmt.Sprintf("%s %s alias=%s zprec=%d mode=%s pre=%s %s", spec.Name, opndsString(vals), partString(part), zprec, modeName(mode), preNames[pre], tag),
					fmt.Sprintf("receiver attributes after the call: precision %d mode %s, want precision %d mode %s (%s)", o.Prec, modeName(o.Mode), wantPrec, modeName(mode), o))
			}
		}
		return
	}
	key := func() string {
		al := ""
		if !identity {
			al = " alias=" + partString(part)
		}
		return fmt.Sprintf("%s %s%s zprec=%d mode=%s pre=%s %s", spec.Name, opndsString(vals), al, zprec, modeName(mode), preNames[pre], tag)
	}
	if exp.NaN {
		c.NonTrivial()
		switch {
		case pv == nil:
			c.Fail(key(), "invalid operation did not panic; receiver "+o.String())
		case !isNaN:
			c.Fail(key(), fmt.Sprintf("invalid operation panicked with %T (%v), not ErrNaN", pv, pv))
		default:
			if msg := Canonical(o); msg != "" {
				c.Fail(key(), "receiver left malformed after the ErrNaN panic: "+msg)
			}
		}
	} else if msg := judgeFull(o, pv, isNaN, exp, false); msg != "" {
		if op == opFMA {
			if cls := fmaKnownClass(vals, o, pv, isNaN, ep, mode); cls != "" {
				c.Known(cls, key(), msg)
				return
			}
		}
		c.Fail(key(), msg)
	}
	for i, a := range after {
		if part[i+1] == 0 {
			continue // the operand is the receiver
		}
		if msg := vals[i].CheckBuilt2(a); msg != "" {
			c.Fail(key()+" operand", msg)
		}
	}
	if c.WantSample() {
		c.Sample(fmt.Sprintf("%s -> %s panic=%v", key(), o, pv))
	}
}

// CheckBuilt2 compares an observation with the operand description.
func (a *Opnd) CheckBuilt2(o Obs) string {
	if o.Form != a.Form || o.Neg != a.Neg || o.Prec != a.Prec || o.Mode != a.Mode {
		return fmt.Sprintf("operand changed: now %s, was %s", o, a)
	}
	if a.Form == fFinite && !o.Val().Equal(a.V) {
		return fmt.Sprintf("operand value changed: now %s, was %s", o, a)
	}
	return ""
}

func specialLayers(tier string) []Layer {
	thorough := tier == "thorough"
	var layers []Layer
	ops := []int{opAdd, opSub, opMul, opQuo, opFMA, opSqrt, opSet, opNeg, opAbs}
	layers = append(layers, Layer{
		Name:   "P1-classes",
		Units:  len(ops) * 6,
		Bounds: "operations {Add,Sub,Mul,Quo,FMA,Sqrt,Set,Neg,Abs} × operand classes {-Inf,-finite,-0,+0,+finite,+Inf}^arity × 6 finite magnitudes (1 digit, 1 word, 3 words, 2 digits, 7×10^(MaxExp−1), 7×10^(MinExp−1); for the last two FMA with three finite operands is left to C03) × receiver precision {0,3,40} × 6 modes × receiver pre-states {fresh, held-longer, -Inf, negative-inexact} × every aliasing partition of {z, operands} the values allow × history of each special operand {never held a finite value, held 1, held a 3-word value}",
		Run: func(c *Ctx, u int) {
			op, mag := ops[u/6], u%6
			spec := opSpecs[op]
			parts := partitions(spec.Arity)
			zps := []uint32{0, 3, 40}
			if thorough {
				zps = []uint32{0, 1, 3, 19, 20, 40}
				p1Stale = []int8{0, 1, 2, 3, 4, 5}
			}
			for _, zp := range zps {
				for _, m := range M6 {
					reps := classReps(mag, 9, (m+2)%6)
					idx := make([]int, spec.Arity)
					for {
						vals := make([]*Opnd, spec.Arity)
						for i := range vals {
							vals[i] = reps[idx[i]]
						}
						// histories of the special operands: never held a finite value / held 1 / held a 3-word value
						sk := make([]int, spec.Arity)
						for {
							sv := make([]*Opnd, spec.Arity)
							for i := range sv {
								sv[i] = vals[i].withStale(p1Stale[sk[i]])
							}
							if op == opFMA && mag >= 4 && sv[0].Form == fFinite && sv[1].Form == fFinite && sv[2].Form == fFinite {
								break // finite x·y+u with the product outside the exponent range: value question, C03's subject (recorded finding)
							}
							for _, part := range parts {
								ok, aliased := true, false
								for i := 1; i <= spec.Arity && ok; i++ {
									if part[i] == 0 {
										aliased = true
										if sv[i-1].Form == fFinite && (zp == 0 || int64(zp) < minPrecWords(sv[i-1].Words)) {
											ok = false // the receiver cannot hold this operand
										}
									}
									for k := 1; k < i; k++ {
										if part[k] == part[i] && (idx[k-1] != idx[i-1] || sk[k-1] != sk[i-1]) {
											ok = false // one variable, one value
										}
									}
								}
								if !ok {
									continue
								}
								if aliased {
									specialCasePart(c, op, part, sv, zp, m, preFresh, "")
									continue
								}
								for _, pre := range []int{preFresh, preLonger, preNegInf, preInexact} {
									specialCasePart(c, op, part, sv, zp, m, pre, "")
								}
							}
							k := 0
							for ; k < spec.Arity; k++ {
								if sv[k].Form == fFinite {
									continue
								}
								sk[k]++
								if sk[k] < len(p1Stale) {
									break
								}
								sk[k] = 0
							}
							if k == spec.Arity {
								break
							}
						}
						i := 0
						for ; i < spec.Arity; i++ {
							idx[i]++
							if idx[i] < 6 {
								break
							}
							idx[i] = 0
						}
						if i == spec.Arity || c.Done() {
							break
						}
					}
				}
			}
		},
	})
	// P2: deep multi-word paths must not panic either
	{
		ns := []int{100, 128, 199}
		if thorough {
			ns = []int{100, 101, 127, 128, 129, 150, 198, 199, 200, 260}
		}
		layers = append(layers, Layer{
			Name:   "P2-large-magnitudes",
			Units:  len(ns) * 7,
			Bounds: fmt.Sprintf("Quo/Mul/Add/Sub/Sqrt on %v-word finite operands (uniform S7 word with top/bottom exceptions) against 1..n-word partners, signs ±, receiver precision {0, 19·n/2, 19·n+1}, modes Even/ToNegativeInf: results must equal the model and nothing may panic", ns),
			Run: func(c *Ctx, u int) {
				n := ns[u/7]
				w := S7[u%7]
				if w == 0 {
					w = 2
				}
				mk := func(n int, w, top, bot uint64, neg bool) *Opnd {
					v := make([]uint64, n)
					for i := range v {
						v[i] = w
					}
					v[n-1], v[0] = top, bot
					return mkWords(neg, v, int64(n%7)-3, 0, 0)
				}
				for _, top := range []uint64{w, BW - 1, 1, BW / 2} {
					x := mk(n, w, top, w, false)
					for _, yl := range []int{1, 2, n / 2, n - 1, n} {
						for _, yw := range []uint64{BW - 1, BW / 2, 1} {
							if c.Done() {
								return
							}
							y := mk(yl, yw, yw, yw, yl%2 == 1)
							for _, zp := range []uint32{0, uint32(19 * n / 2), uint32(19*n + 1)} {
								for _, m := range []uint8{ToNearestEven, ToNegativeInf} {
									for _, op := range []int{opQuo, opMul, opAdd, opSub} {
										specialCase(c, op, []*Opnd{x, y}, zp, m, preFresh, "large")
										specialCase(c, op, []*Opnd{y, x}, zp, m, preFresh, "large")
									}
								}
							}
						}
					}
					for _, zp := range []uint32{0, 40, uint32(19 * n)} {
						specialCase(c, opSqrt, []*Opnd{x}, zp, ToNearestEven, preFresh, "large")
					}
				}
			},
		})
	}
	// P4: precision is only an attribute — operands (and zero-precision receivers) carrying the largest
	// precisions must behave like any other: no panic, same IEEE results
	{
		bigPrecs := []uint32{math.MaxUint32, math.MaxUint32 - 1, 1 << 31, 1<<31 + 1, 1<<32 - 19}
		layers = append(layers, Layer{
			Name:   "P4-extreme-precision-attributes",
			Units:  len(ops),
			Bounds: fmt.Sprintf("operations {Add,Sub,Mul,Quo,FMA,Sqrt,Set,Neg,Abs} on operands from {3, −1.2, 0.25, ±0, ±Inf} whose precision attribute is in %v (every position, also all at once), receiver precision {5, 40} (and 0 for Add/Sub/Mul/Set/Neg/Abs, where the result is exact and short), 6 modes", bigPrecs),
			Run: func(c *Ctx, u int) {
				op := ops[u]
				spec := opSpecs[op]
				base := []*Opnd{mkInt64(3, 0, 9, 0), mkInt64(-12, -1, 9, 1), mkInt64(25, -2, 9, 2), mkSpecial(fZero, false, 9, 0), mkSpecial(fZero, true, 9, 3), mkSpecial(fInf, false, 9, 0), mkSpecial(fInf, true, 9, 4)}
				zps := []uint32{5, 40}
				if op != opQuo && op != opFMA && op != opSqrt {
					zps = append(zps, 0)
				}
				idx := make([]int, spec.Arity)
				for {
					for _, bp := range bigPrecs {
						for mask := 1; mask < 1<<uint(spec.Arity); mask++ {
							vals := make([]*Opnd, spec.Arity)
							for i := range vals {
								v := *base[idx[i]]
								if mask&(1<<uint(i)) != 0 {
									v.Prec = bp - uint32(i) // distinct huge precisions whose sums wrap
								}
								vals[i] = &v
							}
							for _, zp := range zps {
								for _, m := range M6 {
									specialCase(c, op, vals, zp, m, preFresh, "huge-precision")
								}
							}
						}
					}
					i := 0
					for ; i < spec.Arity; i++ {
						idx[i]++
						if idx[i] < len(base) {
							break
						}
						idx[i] = 0
					}
					if i == spec.Arity || c.Done() {
						break
					}
				}
			},
		})
	}
	// P5: finite operands at the ends of the exponent range: a result that leaves the range is a zero /
	// an infinity with the sign of the exact result (an inexact zero is not the "exactly zero sum" of the sign rule)
	{
		layers = append(layers, Layer{
			Name:   "P5-range-end-signs",
			Units:  4,
			Bounds: "Add/Sub/Mul/Quo of x, y in ±{6, 7, 1.1, 1.0}×10^e for e at MinExp−1..MinExp+1 (differences and quotients underflow) and MaxExp−2..MaxExp−1 (sums and products overflow), receiver precision {1, 2, 34}, 6 modes: form and sign of the result",
			Run: func(c *Ctx, u int) {
				op := []int{opAdd, opSub, opMul, opQuo}[u]
				var vs []*Opnd
				for _, e := range []int64{MinExp, MinExp + 1, MinExp + 2, MaxExp - 1, MaxExp} {
					for _, cf := range []int64{6, 7, 11, 10} {
						for _, sg := range []int64{1, -1} {
							o := mkInt64(sg*cf, 0, 9, 0)
							o.Exp = e
							o.V.E10 = e - int64(len(o.Words))*DW
							vs = append(vs, o)
						}
					}
				}
				for _, x := range vs {
					for _, y := range vs {
						if (op == opAdd || op == opSub) && abs64(x.Exp-y.Exp) > 100 {
							continue
						}
						if c.Done() {
							return
						}
						for _, zp := range []uint32{1, 2, 34} {
							for _, m := range M6 {
								specialCase(c, op, []*Opnd{x, y}, zp, m, preFresh, "range-end")
							}
						}
					}
				}
			},
		})
	}
	// P3: every other operation on every class with valid arguments
	{
		reps := func() []*Opnd { return classReps(2, 60, ToNearestAway) }
		layers = append(layers, Layer{
			Name:   "P3-catalogue",
			Units:  6,
			Bounds: "every other public operation (setters incl. 0/±Inf/NaN floats, SetBitsExp on a zero-value receiver, Text with all 256 format bytes, fmt verbs, gob/text/JSON codecs, conversions, predicates, SetPrec/SetMode/SetInf/Copy/MantExp/SetMantExp, parsers on valid and invalid strings) on each operand class; only SetFloat64(NaN) may panic, with ErrNaN",
			Run: func(c *Ctx, u int) {
				xo := reps()[u]
				run := func(name string, wantNaN bool, f func(x *Dec)) {
					if c.Skip() {
						return
					}
					x := xo.Build()
					pv, isNaN := protect(func() { f(x) })
					key := fmt.Sprintf("%s on %s", name, classNames[u])
					c.NonTrivial()
					switch {
					case wantNaN && (pv == nil || !isNaN):
						c.Fail(key, fmt.Sprintf("expected an ErrNaN panic, got %v", pv))
					case !wantNaN && pv != nil:
						c.Fail(key, fmt.Sprintf("panic on valid arguments: %v", pv))
					}
					if msg := Canonical(Observe(x)); msg != "" {
						c.Fail(key, "receiver/operand left malformed: "+msg)
					}
					c.Outcome(fnvStr(0, key))
				}
				for f := 0; f < 256; f++ {
					for _, p := range []int{-1, 0, 5, 80} {
						f, p := f, p
						run(fmt.Sprintf("Text(%q,%d)", byte(f), p), false, func(x *Dec) { _ = x.Text(byte(f), p) })
					}
				}
				for _, verb := range "vbeEfFgGpsxXqdtTcoOU" {
					for _, flags := range []string{"", "+", "-08", " 12.3", "#", "020.30"} {
						format := "%" + flags + string(verb)
						run("Sprintf("+format+")", false, func(x *Dec) { _ = fmt.Sprintf(format, x) })
					}
				}
				run("String", false, func(x *Dec) { _ = x.String() })
				run("Append", false, func(x *Dec) { _ = x.Append(make([]byte, 3, 4), 'g', -1) })
				run("GobEncode/GobDecode", false, func(x *Dec) {
					b, err := x.GobEncode()
					if err != nil {
						panic(err)
					}
					if err := new(Dec).GobDecode(b); err != nil {
						panic(err)
					}
					if err := x.GobDecode(b); err != nil {
						panic(err)
					}
				})
				run("gob stream", false, func(x *Dec) {
					var buf bytes.Buffer
					if err := gob.NewEncoder(&buf).Encode(x); err != nil {
						panic(err)
					}
					if err := gob.NewDecoder(&buf).Decode(new(Dec)); err != nil {
						panic(err)
					}
				})
				run("MarshalText/UnmarshalText", false, func(x *Dec) {
					b, _ := x.MarshalText()
					if err := new(Dec).UnmarshalText(b); err != nil {
						panic(err)
					}
				})
				run("JSON", false, func(x *Dec) {
					b, err := json.Marshal(x)
					if err != nil {
						panic(err)
					}
					_ = json.Unmarshal(b, new(Dec))
				})
				run("nil GobEncode/MarshalText", false, func(x *Dec) {
					var n *Dec
					_, _ = n.GobEncode()
					_, _ = n.MarshalText()
				})
				run("Int", false, func(x *Dec) { x.Int(nil) })
				run("Int(z)", false, func(x *Dec) { x.Int(new(big.Int)) })
				run("Int64", false, func(x *Dec) { x.Int64() })
				run("Uint64", false, func(x *Dec) { x.Uint64() })
				run("Rat", false, func(x *Dec) { x.Rat(nil) })
				run("Rat(z)", false, func(x *Dec) { x.Rat(new(big.Rat)) })
				run("Float", false, func(x *Dec) { x.Float(nil) })
				run("Float(z)", false, func(x *Dec) { x.Float(new(big.Float).SetPrec(30)) })
				run("Float32", false, func(x *Dec) { x.Float32() })
				run("Float64", false, func(x *Dec) { x.Float64() })
				run("predicates", false, func(x *Dec) {
					x.IsInt()
					x.IsInf()
					x.IsZero()
					x.MinPrec()
					x.Sign()
					x.Signbit()
					x.Prec()
					x.Mode()
					x.Acc()
					x.MantExp(nil)
					x.BitsExp()
					x.Cmp(x)
					x.Cmp(new(Dec))
				})
				run("MantExp/SetMantExp", false, func(x *Dec) {
					m := new(Dec)
					e := x.MantExp(m)
					new(Dec).SetMantExp(m, e)
					x.SetMantExp(x, 3)
				})
				run("Copy", false, func(x *Dec) { new(Dec).Copy(x); x.Copy(x) })
				for _, p := range []uint{0, 1, 5, 200, math.MaxUint32, math.MaxUint32 + 1} {
					p := p
					run(fmt.Sprintf("SetPrec(%d)", p), false, func(x *Dec) { x.SetPrec(p) })
				}
				for m := 0; m < 6; m++ {
					m := m
					run(fmt.Sprintf("SetMode(%d)", m), false, func(x *Dec) { x.SetMode(decimal.RoundingMode(m)) })
				}
				run("SetInf", false, func(x *Dec) { x.SetInf(true); x.SetInf(false) })
				for _, f := range []float64{0, math.Copysign(0, -1), math.Inf(1), math.Inf(-1), 1.5, -2.5e-310, math.MaxFloat64, math.SmallestNonzeroFloat64} {
					f := f
					run(fmt.Sprintf("SetFloat64(%v)", f), false, func(x *Dec) { x.SetFloat64(f) })
					run(fmt.Sprintf("zero-value SetFloat64(%v)", f), false, func(x *Dec) { new(Dec).SetFloat64(f) })
					run(fmt.Sprintf("SetFloat(%v)", f), false, func(x *Dec) { x.SetFloat(big.NewFloat(f)) })
					run(fmt.Sprintf("zero-value SetFloat(%v)", f), false, func(x *Dec) { new(Dec).SetFloat(big.NewFloat(f)) })
				}
				run("SetFloat(zero-value big.Float)", false, func(x *Dec) { x.SetFloat(new(big.Float)) })
				run("SetFloat(huge)", false, func(x *Dec) {
					x.SetFloat(new(big.Float).SetMantExp(big.NewFloat(1.5), 100000))
					x.SetFloat(new(big.Float).SetMantExp(big.NewFloat(-1.5), -100000))
				})
				run("SetFloat64(NaN)", true, func(x *Dec) { x.SetFloat64(math.NaN()) })
				run("SetInt", false, func(x *Dec) {
					x.SetInt(new(big.Int))
					x.SetInt(big.NewInt(-5))
					new(Dec).SetInt(new(big.Int).Lsh(big1, 200))
				})
				run("SetInt64/SetUint64", false, func(x *Dec) {
					x.SetInt64(0)
					x.SetInt64(math.MinInt64)
					x.SetUint64(math.MaxUint64)
					new(Dec).SetUint64(0)
				})
				run("SetRat", false, func(x *Dec) {
					x.SetRat(new(big.Rat))
					x.SetRat(big.NewRat(-1, 3))
					new(Dec).SetRat(big.NewRat(22, 7))
				})
				run("SetBitsExp", false, func(x *Dec) {
					new(Dec).SetBitsExp([]Word{1}, 0)
					new(Dec).SetBitsExp(nil, 5)
					new(Dec).SetBitsExp([]Word{0, 0}, 5)
					x.SetBitsExp([]Word{0, 5, 0}, math.MinInt64)
					x.SetBitsExp([]Word{Word(BW - 1)}, math.MaxInt64)
					m, e := x.BitsExp()
					x.SetBitsExp(m, int64(e))
				})
				run("NewDecimal", false, func(x *Dec) {
					decimal.NewDecimal(0, 0)
					decimal.NewDecimal(math.MinInt64, math.MaxInt32)
					decimal.NewDecimal(1, math.MinInt64)
					decimal.NewDecimal(-1, math.MaxInt64)
				})
				for _, s := range []string{"", "-", ".", "1", "-0", "+Inf", "inf", "Infinity", "NaN", "1e", "1e+", "0x", "0x.p1", "1_0", "_1", "1__0", "0b102", "1e99999999999", "1e-99999999999", "0x1p-2000", "1.5E3", "१", "\x00", "1 ", " 1"} {
					s := s
					for _, base := range []int{0, 2, 8, 10, 16} {
						base := base
						run(fmt.Sprintf("Parse(%q,%d)", s, base), false, func(x *Dec) { x.Parse(s, base) })
					}
					run(fmt.Sprintf("SetString(%q)", s), false, func(x *Dec) { x.SetString(s) })
					run(fmt.Sprintf("UnmarshalText(%q)", s), false, func(x *Dec) { x.UnmarshalText([]byte(s)) })
					run(fmt.Sprintf("Sscan(%q)", s), false, func(x *Dec) { fmt.Sscan(s, x) })
					run(fmt.Sprintf("ParseDecimal(%q)", s), false, func(x *Dec) { decimal.ParseDecimal(s, 0, 0, decimal.ToZero) })
				}
			},
		})
	}
	return layers
}

func init() {
	register(&Property{
		ID: "C04", Level: "model_checking",
		Rule: "a case is (operation, operand classes and magnitudes, receiver precision/mode/pre-state); non-trivial when the operation is invalid (must panic with ErrNaN) or belongs to the catalogue layer (must not panic)",
		Assumptions: []string{
			"IEEE special-value table encoded in mc/ref.go (Model* functions)",
			"invalid base arguments to Parse (documented to panic) are not 'valid arguments' and are not exercised",
		},
		Layers: specialLayers,
	})
}
