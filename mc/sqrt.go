package main

// C05: Sqrt correctly rounded under the receiver's precision and mode;
// receiver precision and mode unchanged by the call.

import (
	"fmt"
	"math"
	"math/big"
)

func sqrtCase(c *Ctx, xo *Opnd, x *Dec, prec uint32, mode uint8, pre int) {
	if c.Skip() {
		return
	}
	z := buildPre(pre, prec, mode)
	exp := ModelSqrt(xo.V, prec, mode)
	pv, isNaN := protect(func() { z.Sqrt(x) })
	o := Observe(z)
	c.Outcome(o.Hash())
	key := func() string {
		return fmt.Sprintf("Sqrt x=%s prec=%d mode=%s pre=%s", xo, prec, modeName(mode), preNames[pre])
	}
	if exp.Acc != 0 {
		c.NonTrivial()
	}
	if msg := judgeFull(o, pv, isNaN, exp, false); msg != "" {
		if pre == preFresh {
			c.FailT(key(), msg, func() string { return goTestArith("Sqrt", []string{"x"}, []*Opnd{xo}, prec, mode, exp, false) })
		} else {
			c.Fail(key(), msg)
		}
		return
	}
	if pv == nil {
		if o.Prec != prec || o.Mode != mode {
			c.Fail(key(), fmt.Sprintf("receiver attributes changed: prec %d→%d, mode %s→%s", prec, o.Prec, modeName(mode), modeName(o.Mode)))
			return
		}
		// Acc() after Sqrt is not judged: the property does not state it.
	}
	if c.WantSample() {
		c.Sample(fmt.Sprintf("%s -> %s", key(), o))
	}
}

// sqrtInPlaceCase: z.Sqrt(z) — the receiver is the operand, held in a tight buffer, with accuracy != Exact,
// or in a buffer with spare capacity (as left by earlier arithmetic). Requires minPrec(x) <= prec.
func sqrtInPlaceCase(c *Ctx, xo *Opnd, prec uint32, mode uint8) {
	if xo.Form == fFinite && minPrecWords(xo.Words) > int64(prec) {
		return
	}
	for v := 0; v < numRecvVariants; v++ {
		if c.Skip() {
			continue
		}
		a := *xo
		a.Prec, a.Mode = prec, mode
		z := a.buildVariant(v)
		exp := ModelSqrt(xo.V, prec, mode)
		pv, isNaN := protect(func() { z.Sqrt(z) })
		o := Observe(z)
		key := func() string {
			return fmt.Sprintf("z.Sqrt(z) z=%s prec=%d mode=%s recv-variant=%d", xo, prec, modeName(mode), v)
		}
		c.NonTrivial()
		if msg := judgeFull(o, pv, isNaN, exp, false); msg != "" {
			c.Fail(key(), msg)
		} else if pv == nil && (o.Prec != prec || o.Mode != mode) {
			c.Fail(key(), fmt.Sprintf("receiver attributes changed: %s", o))
		}
	}
}

func sqrtLayers(tier string) []Layer {
	thorough := tier == "thorough"
	var layers []Layer
	allPrecs := []uint32{1, 2, 3, 4, 5, 6, 7, 8, 16, 17, 18, 19, 20, 21, 34, 36, 37, 38, 39, 40, 56, 57, 58}
	// Q1: digit-exhaustive
	{
		k := 4
		if thorough {
			k = 5
		}
		coefs := DCoefs(k)
		layers = append(layers, Layer{
			Name:   "Q1-digits",
			Units:  len(coefs),
			Bounds: fmt.Sprintf("x = c×10^e, c in D(%d), e in -3..2 (both exponent parities, negative exponents), x.prec in {digits, 34}, x.mode = (mode+1)%%6, receiver prec %v, 6 modes; for a quarter of the values also in place (z.Sqrt(z)) with the receiver in a tight buffer / inexact / with spare capacity", k, allPrecs),
			Run: func(c *Ctx, u int) {
				for e := int64(-3); e <= 2; e++ {
					for _, xp := range []uint32{0, 34} {
						if c.Done() {
							return
						}
						for _, m := range M6 {
							xo := mkInt64(coefs[u], e, 34, (m+1)%6)
							if xp == 0 {
								xo.Prec = uint32(minPrecWords(xo.Words))
							}
							x := xo.Build()
							for _, p := range allPrecs {
								sqrtCase(c, xo, x, p, m, preFresh)
							}
							if xp == 0 && u%4 == int(e+3)%4 {
								for _, p := range []uint32{5, 16, 19, 20} {
									sqrtInPlaceCase(c, xo, p, m) // z.Sqrt(z)
								}
							}
						}
					}
				}
			},
		})
	}
	// Q2: perfect squares, their neighbours, and half-way squares
	{
		var roots []*big.Int
		for _, r := range DCoefs(3) {
			roots = append(roots, big.NewInt(r))
		}
		for _, s := range RunLengthStrings(9) {
			if len(s) <= 12 {
				roots = append(roots, mustInt(s))
			}
		}
		for _, v := range WVecs(2, S7) {
			roots = append(roots, wordsToInt(v))
		}
		for _, k := range binaryBoundaryRoots {
			roots = append(roots, big.NewInt(k))
		}
		layers = append(layers, Layer{
			Name:   "Q2-squares",
			Units:  len(roots),
			Bounds: "x in {r², r²±1, (10r+5)² (exact tie at digits(r)), (10r+5)²±1} for r in D(3) ∪ R(9) ∪ W(2,S7) ∪ 15 roots whose squares lie around 2^52..2^64 (float64 / uint64 shortcuts), both exponent parities; receiver prec in {digits(r)-1, digits(r), digits(r)+1, 2·digits(r)+2}; 6 modes; receiver pre-states fresh/held-longer/-Inf",
			Run: func(c *Ctx, u int) {
				r := roots[u]
				dr := uint32(ndigits(r))
				r5 := new(big.Int).Add(new(big.Int).Mul(r, big10), big.NewInt(5))
				cands := []*big.Int{}
				for _, b := range []*big.Int{r, r5} {
					sq := new(big.Int).Mul(b, b)
					cands = append(cands, sq, new(big.Int).Add(sq, big1), new(big.Int).Sub(sq, big1))
				}
				for _, xi := range cands {
					if xi.Sign() <= 0 {
						continue
					}
					for _, e := range []int64{0, -1, -2, 3} {
						if c.Done() {
							return
						}
						for _, m := range M6 {
							xo := mkCoef(false, xi, e, uint32(ndigits(xi))+2, (m+3)%6)
							x := xo.Build()
							precs := []uint32{dr, dr + 1, 2*dr + 2}
							if dr > 1 {
								precs = append(precs, dr-1)
							}
							for _, p := range precs {
								for _, pre := range []int{preFresh, preLonger, preNegInf} {
									sqrtCase(c, xo, x, p, m, pre)
								}
							}
						}
					}
				}
			},
		})
	}
	// Q3: long inputs and large precisions
	{
		strs := RunLengthStrings(30)
		if thorough {
			strs = RunLengthStrings(45)
		}
		layers = append(layers, Layer{
			Name:   "Q3-long",
			Units:  len(strs),
			Bounds: "x = run-length digit strings up to ~35 (thorough 50) digits at exponents {0,1}; receiver prec {1, 9, 19, 38, 57, 76, 100}; 6 modes",
			Run: func(c *Ctx, u int) {
				xi := mustInt(strs[u])
				for _, e := range []int64{0, 1} {
					if c.Done() {
						return
					}
					xo := mkCoef(false, xi, e-int64(len(strs[u])), uint32(len(strs[u]))+1, ToZero)
					x := xo.Build()
					for _, p := range []uint32{1, 9, 19, 38, 57, 76, 100} {
						for _, m := range M6 {
							sqrtCase(c, xo, x, p, m, preFresh)
						}
					}
				}
			},
		})
	}
	// Q5: long operands that differ from an exact square (or an exact tie square) only far below the receiver's precision
	{
		var roots []*big.Int
		for _, r := range []int64{1, 2, 3, 5, 7, 25, 35, 95, 15, 135, 105, 999, 1005, 31623} {
			roots = append(roots, big.NewInt(r))
		}
		layers = append(layers, Layer{
			Name:   "Q5-long-near-squares",
			Units:  len(roots),
			Bounds: "x = r²·10^(2k) ± 1 for k in {20,21,30,45,60,100} (the perturbation sits 40..200 digits below the leading digit), r in 14 roots incl. (10r'+5) tie roots, both exponent parities; receiver precision in {1,2,3,digits(r)-1,digits(r),digits(r)+1,9}; 6 modes",
			Run: func(c *Ctx, u int) {
				r := roots[u]
				dr := uint32(ndigits(r))
				sq := new(big.Int).Mul(r, r)
				for _, k := range []int64{20, 21, 30, 45, 60, 100} {
					for _, d := range []int64{1, -1} {
						xi := new(big.Int).Mul(sq, p10(2*k))
						xi.Add(xi, big.NewInt(d))
						for _, e := range []int64{0, -1, -2 * k} {
							if c.Done() {
								return
							}
							xo := mkCoef(false, xi, e, uint32(ndigits(xi)), ToNearestAway)
							x := xo.Build()
							precs := []uint32{1, 2, 3, dr, dr + 1, 9}
							if dr > 1 {
								precs = append(precs, dr-1)
							}
							for _, p := range precs {
								for _, m := range M6 {
									if m == ToNearestAway {
										xo.Mode = ToZero
									}
									sqrtCase(c, xo, x, p, m, preFresh)
								}
							}
						}
					}
				}
			},
		})
	}
	// Q6: precisions above 1200 digits (64+ word working mantissas) with x a hair below / above a perfect square
	{
		type q6 struct {
			prec uint32
			k    int
		}
		var units []q6
		for _, p := range []uint32{1197, 1250} {
			for _, k := range []int{int(p) + 2, 2*int(p) + 3, 3 * int(p), 3*int(p) + 4, 3*int(p) + 10, 4 * int(p)} {
				units = append(units, q6{p, k})
			}
		}
		layers = append(layers, Layer{
			Name:   "Q6-huge-precision-near-squares",
			Units:  len(units),
			Bounds: "receiver precision {1197, 1250} (working mantissa ≥ 64 words); x = r² ∓ 10^−k for r in {2, 3.5, 0.999…9 (prec digits)}, k in {p+2, 2p+3, 3p, 3p+4, 3p+10, 4p}; 6 modes",
			Run: func(c *Ctx, u int) {
				t := units[u]
				roots := []*big.Int{big.NewInt(2), big.NewInt(35), new(big.Int).Sub(p10(int64(t.prec)), big1)}
				rexp := []int64{0, -1, -int64(t.prec)}
				for ri, r := range roots {
					sq := new(big.Int).Mul(r, r) // × 10^(2·rexp)
					for _, sgn := range []int64{-1, 1} {
						// x = sq·10^(2e) + sgn·10^(−k)  =  (sq·10^(2e+k) + sgn) · 10^(−k)
						sh := int64(t.k) + 2*rexp[ri]
						if sh < 0 {
							continue
						}
						xi := new(big.Int).Mul(sq, p10(sh))
						xi.Add(xi, big.NewInt(sgn))
						xo := mkCoef(false, xi, -int64(t.k), uint32(ndigits(xi)), ToNearestAway)
						x := xo.Build()
						for _, m := range M6 {
							sqrtCase(c, xo, x, t.prec, m, preFresh)
						}
					}
				}
			},
		})
	}
	// Q4: specials and range ends
	{
		var xs []*Opnd
		for _, f := range []int8{fZero, fInf} {
			for _, n := range []bool{false, true} {
				xs = append(xs, mkSpecial(f, n, 5, ToPositiveInf))
			}
		}
		xs = append(xs, staleSpecials(5, ToNearestAway)...)
		// operands whose precision attribute is at the top of the range (working precisions derived from x.prec must not wrap)
		for _, cf := range []int64{2, 4, 25, 30} {
			for _, hp := range []uint32{math.MaxUint32, math.MaxUint32 - 1, 1 << 31} {
				xs = append(xs, mkInt64(cf, -1, hp, ToZero))
			}
		}
		xs = append(xs, mkInt64(-4, 0, 5, 0), mkInt64(-1, -30, 5, 0))
		for _, e := range []int64{MinExp, MinExp + 1, MinExp + 2, MaxExp, MaxExp - 1} {
			for _, cf := range []int64{1, 4, 9, 16, 2, 99, 25} {
				o := mkInt64(cf, 0, 34, ToNearestAway)
				o.Exp = e
				o.V.E10 = e - int64(len(o.Words))*DW
				xs = append(xs, o)
			}
		}
		layers = append(layers, Layer{
			Name:   "Q4-special-range",
			Units:  len(xs),
			Bounds: "x in {±0, ±Inf, negative finite} and 7 coefficients at exponents MinExp..MinExp+2, MaxExp-1, MaxExp; prec {1,2,5,20}; 6 modes; 3 receiver pre-states",
			Run: func(c *Ctx, u int) {
				x := xs[u].Build()
				for _, p := range []uint32{1, 2, 5, 20} {
					for _, m := range M6 {
						for _, pre := range []int{preFresh, preLonger, preInf} {
							sqrtCase(c, xs[u], x, p, m, pre)
						}
					}
				}
			},
		})
	}
	return layers
}

func init() {
	register(&Property{
		ID: "C05", Level: "model_checking",
		Rule: "a case is (x, receiver precision, receiver mode, receiver pre-state); x.mode always differs from the receiver's mode; non-trivial when the root is irrational or needs more digits than the precision",
		Assumptions: []string{
			"reference = integer square root with remainder on big.Int (ref.go ModelSqrt), self-checked by squaring on start-up",
			"inputs above ~50 digits / precisions above 100 are not enumerated",
		},
		Layers: sqrtLayers,
	})
}

// binaryBoundaryRoots: k with k² around 2^52..2^64, where a square root taken through float64 or
// uint64 arithmetic rounds k²±1 onto k.
var binaryBoundaryRoots = []int64{1 << 26, 1<<26 + 1, 1<<26 + 12345, 70000001, 90000000, 94906264, 94906265, 94906266, 99999999, 100000001, 1<<31 + 1, 3037000499, 3037000500, 1<<32 - 1, 1 << 32}
