package main

// C11: text output parses back to exactly the same Decimal, and contains
// exactly MinPrec significant digits.

import (
	"encoding/json"
	"fmt"
	"strings"
)

// sigDigits extracts the significant digit string of a formatted number
// (sign, radix point, exponent, leading and trailing zeros removed).
func sigDigits(s string) string {
	s = strings.TrimLeft(s, "+-")
	if i := strings.IndexAny(s, "eE"); i >= 0 {
		s = s[:i]
	}
	s = strings.Replace(s, ".", "", 1)
	s = strings.TrimLeft(s, "0")
	s = strings.TrimRight(s, "0")
	return s
}

type producer struct {
	name string
	f    func(x *Dec) (string, error)
	cnt  bool // output must contain exactly MinPrec significant digits
	isF  bool
}

var producers = []producer{
	{"Text(e,-1)", func(x *Dec) (string, error) { return x.Text('e', -1), nil }, true, false},
	{"Text(E,-1)", func(x *Dec) (string, error) { return x.Text('E', -1), nil }, true, false},
	{"Text(f,-1)", func(x *Dec) (string, error) { return x.Text('f', -1), nil }, true, true},
	{"Text(g,-1)", func(x *Dec) (string, error) { return x.Text('g', -1), nil }, true, false},
	{"Text(G,-1)", func(x *Dec) (string, error) { return x.Text('G', -1), nil }, true, false},
	{"Text(p,0)", func(x *Dec) (string, error) { return x.Text('p', 0), nil }, true, false},
	{"Text(b,0)", func(x *Dec) (string, error) { return x.Text('b', 0), nil }, false, false},
	{"Append(g,-1)", func(x *Dec) (string, error) { return string(x.Append([]byte("ab"), 'g', -1)[2:]), nil }, true, false},
	{"MarshalText", func(x *Dec) (string, error) { b, err := x.MarshalText(); return string(b), err }, true, false},
	{"json.Marshal", func(x *Dec) (string, error) {
		b, err := json.Marshal(x)
		if err != nil {
			return "", err
		}
		var s string
		if err := json.Unmarshal(b, &s); err != nil {
			return "", fmt.Errorf("json output %s is not a JSON string: %v", b, err)
		}
		return "json:" + string(b), nil
	}, false, false},
}

type consumer struct {
	name string
	f    func(z *Dec, s string) error
}

var consumers = []consumer{
	{"Parse(10)", func(z *Dec, s string) error { _, _, err := z.Parse(s, 10); return err }},
	{"Parse(0)", func(z *Dec, s string) error { _, _, err := z.Parse(s, 0); return err }},
	{"SetString", func(z *Dec, s string) error {
		if _, ok := z.SetString(s); !ok {
			return fmt.Errorf("SetString failed")
		}
		return nil
	}},
	{"UnmarshalText", func(z *Dec, s string) error { return z.UnmarshalText([]byte(s)) }},
}

func roundTripCase(c *Ctx, xo *Opnd) {
	x := xo.Build()
	mp := uint32(0)
	if xo.Form == fFinite {
		mp = uint32(minPrecWords(xo.Words))
	}
	want := ""
	if xo.Form == fFinite {
		want = xo.V.Norm().Coef.String()
	}
	for pi := range producers {
		p := &producers[pi]
		if p.isF && xo.Form == fFinite && (xo.Exp > 70 || xo.Exp < -70) {
			continue
		}
		if c.Skip() {
			continue
		}
		var s string
		var err error
		pv, _ := protect(func() { s, err = p.f(x) })
		key := func() string { return fmt.Sprintf("%s x=%s@exp%d", p.name, xo, xo.Exp) }
		if pv != nil || err != nil {
			c.Fail(key(), fmt.Sprintf("producer failed: panic=%v err=%v", pv, err))
			continue
		}
		c.NonTrivial()
		isJSON := strings.HasPrefix(s, "json:")
		if p.cnt && xo.Form == fFinite {
			if got := sigDigits(s); got != want {
				c.Fail(key(), fmt.Sprintf("output %q carries significant digits %q, x has exactly %q (MinPrec %d)", s, got, want, mp))
				continue
			}
		}
		precs := []uint32{mp, mp + 1, xo.Prec}
		if mp == 0 {
			precs = []uint32{1, 7, xo.Prec}
		}
		if mp <= 34 {
			precs = append(precs, 0)
		}
		for _, rp := range precs {
			if isJSON {
				z := fresh(rp, ToZero)
				var uerr error
				pv, _ := protect(func() { uerr = json.Unmarshal([]byte(s[5:]), z) })
				roundTripJudge(c, key()+" -> json.Unmarshal", s, xo, z, pv, uerr, rp)
				continue
			}
			for ci := range consumers {
				cs := &consumers[ci]
				if p.name == "Text(b,0)" && false {
					continue
				}
				z := fresh(rp, uint8(ToZero+ci%2))
				var perr error
				pv, _ := protect(func() { perr = cs.f(z, s) })
				roundTripJudge(c, key()+" -> "+cs.name, s, xo, z, pv, perr, rp)
				if rp != 0 && rp == precs[0] && pi%3 == ci%3 {
					// a reused receiver: longer dirty buffer / empty mantissa over a dirty array
					for _, pre := range []int{preBigDirty, preParsedZero} {
						zd := buildPre(pre, rp, uint8(ToZero+ci%2))
						pv, _ := protect(func() { perr = cs.f(zd, s) })
						roundTripJudge(c, key()+" -> "+cs.name+" into "+preNames[pre], s, xo, zd, pv, perr, rp)
					}
				}
			}
		}
		c.Outcome(fnvStr(0, s))
		if c.WantSample() {
			c.Sample(fmt.Sprintf("%s = %q", key(), s))
		}
	}
	if msg := xo.CheckBuilt(x); msg != "" {
		c.Fail("operand x="+xo.String(), "x modified by formatting: "+msg)
	}
}

func roundTripJudge(c *Ctx, key, s string, xo *Opnd, z *Dec, pv interface{}, err error, rp uint32) {
	if pv != nil || err != nil {
		c.Fail(fmt.Sprintf("%s prec=%d", key, rp), fmt.Sprintf("parsing %q failed: panic=%v err=%v", s, pv, err))
		return
	}
	o := Observe(z)
	if msg := Canonical(o); msg != "" {
		c.Fail(fmt.Sprintf("%s prec=%d", key, rp), "parsed value not canonical: "+msg)
		return
	}
	if o.Form != xo.Form || o.Neg != xo.Neg || (o.Form == fFinite && !o.Val().Equal(xo.V)) {
		c.Fail(fmt.Sprintf("%s prec=%d", key, rp), fmt.Sprintf("%q parsed to %s (= %s), want exactly %s", s, o, o.Val(), xo.V.Norm()))
		return
	}
	if o.Acc != 0 {
		c.Fail(fmt.Sprintf("%s prec=%d", key, rp), fmt.Sprintf("%q parsed exactly but Acc() = %d", s, o.Acc))
	}
}

func textValues(tier string) []*Opnd {
	thorough := tier == "thorough"
	var base []*Opnd
	k, J := 2, 20
	if thorough {
		k, J = 3, 45
	}
	for _, cf := range DCoefs(k) {
		base = append(base, mkInt64(cf, 0, 34, 0))
	}
	for _, s := range RunLengthStrings(J) {
		base = append(base, mkCoef(false, mustInt(s), 0, uint32(len(s))+2, 0))
	}
	for _, v := range WVecs(3, S7) {
		base = append(base, mkWords(false, v, 0, 0, 0))
	}
	// long mantissas: one repeated word with an exception (also a zero word) at every index
	longLens := []int{4, 5, 8, 9, 17}
	if thorough {
		longLens = append(longLens, 6, 7, 16, 33, 64)
	}
	for _, n := range longLens {
		for _, w := range []uint64{BW - 1, 1234567890123456789} {
			for i := 0; i < n; i++ {
				v := make([]uint64, n)
				for k := range v {
					v[k] = w
				}
				if i < n-1 {
					v[i] = 0
				} else {
					v[i] = BW / 10
				}
				base = append(base, mkWords(false, v, 0, 0, 0))
			}
		}
	}
	var exps []int64
	for e := int64(-25); e <= 25; e++ {
		exps = append(exps, e)
	}
	if !thorough {
		exps = []int64{-25, -19, -18, -7, -6, -5, -4, -3, -1, 0, 1, 2, 5, 6, 7, 18, 19, 20, 21, 22, 25}
	}
	exps = append(exps, 38, 39, 57, -38, 70, 71, -70, -71, MinExp, MinExp+1, MinExp+2, MaxExp-2, MaxExp-1, MaxExp)
	// printed exponents at every change of their digit count (…9 | 10…, 99 | 100, 999 | 1000, …): for every 8th value (all of them: thorough)
	var bexps []int64
	for _, b := range []int64{100, 1000, 10000, 100000, 1000000, 1000000000} {
		bexps = append(bexps, b-1, b, b+1, b+2, -b+3, -b+2, -b+1, -b)
	}
	var out []*Opnd
	for bi, b := range base {
		es := exps
		if thorough || bi%8 == 0 {
			es = append(append([]int64{}, exps...), bexps...)
		}
		for _, e := range es {
			for _, neg := range []bool{false, true} {
				o := *b
				o.Exp = e
				o.V.E10 = e - int64(len(o.Words))*DW
				o.Neg, o.V.Neg = neg, neg
				out = append(out, &o)
			}
		}
	}
	for _, f := range []int8{fZero, fInf} {
		out = append(out, mkSpecial(f, false, 5, 0), mkSpecial(f, true, 40, 0), mkSpecial(f, true, 0, 0))
	}
	out = append(out, staleSpecials(7, 0)...) // the variable held 1, 1e-7, a 3-word value, 5e5 before
	return out
}

// retentionCase: the bytes returned for x must still denote x after the same producer
// (and the other byte-producing calls) have been used on other values.
func retentionCase(c *Ctx, xo *Opnd, others []*Opnd) {
	type bp struct {
		name string
		f    func(x *Dec) ([]byte, error)
	}
	bps := []bp{
		{"MarshalText", func(x *Dec) ([]byte, error) { return x.MarshalText() }},
		{"Append(nil,g,-1)", func(x *Dec) ([]byte, error) { return x.Append(nil, 'g', -1), nil }},
		{"Append(nil,e,-1)", func(x *Dec) ([]byte, error) { return x.Append(nil, 'e', -1), nil }},
		{"json.Marshal", func(x *Dec) ([]byte, error) { return json.Marshal(x) }},
	}
	x := xo.Build()
	for _, p := range bps {
		if c.Skip() {
			continue
		}
		var b []byte
		var err error
		pv, _ := protect(func() { b, err = p.f(x) })
		key := func() string { return fmt.Sprintf("retention %s x=%s@exp%d", p.name, xo, xo.Exp) }
		if pv != nil || err != nil {
			c.Fail(key(), fmt.Sprintf("producer failed: panic=%v err=%v", pv, err))
			continue
		}
		keep := string(b)
		// later calls on other values, through every byte-producing entry point
		for _, oo := range others {
			o := oo.Build()
			for _, q := range bps {
				protect(func() { q.f(o) })
			}
			_ = o.Text('e', -1)
			_ = fmt.Sprintf("%v %.3e", o, o)
		}
		c.NonTrivial()
		if string(b) != keep {
			c.Fail(key(), fmt.Sprintf("the returned bytes changed after later calls on other values: %q became %q", keep, string(b)))
			continue
		}
		s := string(b)
		if p.name == "json.Marshal" {
			z := fresh(xo.Prec, ToZero)
			uerr := json.Unmarshal(b, z)
			roundTripJudge(c, key()+" -> json.Unmarshal", s, xo, z, nil, uerr, xo.Prec)
			continue
		}
		z := fresh(xo.Prec, ToZero)
		uerr := z.UnmarshalText(b)
		roundTripJudge(c, key()+" -> UnmarshalText", s, xo, z, nil, uerr, xo.Prec)
	}
}

func textLayers(tier string) []Layer {
	var vals []*Opnd
	n := len(textValues(tier))
	const chunk = 256
	return []Layer{{
		Name:   "T2-result-retention",
		Units:  (n + 4*chunk - 1) / (4 * chunk),
		Bounds: "every 4th value of T1 through MarshalText, Append(nil,·), json.Marshal; the returned bytes are kept while the same calls (plus Text, Sprintf) run on 3 other values (shorter, longer, special), then compared and parsed back: a result must not be invalidated by later calls",
		Run: func(c *Ctx, u int) {
			if vals == nil {
				vals = textValues(tier)
			}
			for i := u * 4 * chunk; i < (u+1)*4*chunk && i < len(vals); i += 4 {
				if c.Done() {
					return
				}
				others := []*Opnd{vals[(i+1)%len(vals)], vals[(i+len(vals)/2)%len(vals)], vals[len(vals)-1-(i%8)]}
				retentionCase(c, vals[i], others)
			}
		},
	}, {
		Name:   "T1-roundtrip",
		Units:  (n + chunk - 1) / chunk,
		Bounds: fmt.Sprintf("%d values (D(k) ∪ run-length strings ∪ W(3,S7) with low/interior zero words ∪ 4–17-word (thorough –64) mantissas of one repeated word with a zero word at every index) × exponents (sub-word, multi-word, %%g thresholds, every change of the printed exponent's digit count up to 10^9, range ends) × ±, plus ±0, ±Inf (also in variables that held finite values before); producers Text e/E/f/g/G/p (-1), b, Append, MarshalText, json.Marshal; consumers Parse(10), Parse(0), SetString, UnmarshalText, json.Unmarshal at receiver precision {MinPrec, MinPrec+1, x.prec, 0}, fresh receivers and (for a third of the producer/consumer pairs) reused ones (40-word dirty buffer; empty mantissa over a dirty array)", n),
		Run: func(c *Ctx, u int) {
			if vals == nil {
				vals = textValues(tier)
			}
			for i := u * chunk; i < (u+1)*chunk && i < len(vals); i++ {
				if c.Done() {
					return
				}
				roundTripCase(c, vals[i])
			}
		},
	}}
}

func init() {
	register(&Property{
		ID: "C11", Level: "model_checking",
		Rule:        "a case is (value, producer); each is parsed back by every consumer at every receiver precision; all values distinct; every case is non-trivial (identity + digit-count oracle)",
		Assumptions: []string{"'f' format only for |exponent| <= 70 (output length ∝ exponent)", "significant-digit extraction is done by the harness (sigDigits)"},
		Layers:      textLayers,
	})
}
