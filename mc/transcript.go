package main

// C07 part 2: whole-library transcripts. The same deterministic exhaustive
// enumeration of public operations is executed by binaries built under the four
// build-tag sets; the per-chunk SHA-256 digests of all observations must agree.

import (
	"crypto/sha256"
	"encoding/binary"
	"encoding/hex"
	"fmt"
	"math/big"
	"os"
	"strconv"

	"github.com/db47h/decimal"
)

func transcriptValues() []*Opnd {
	var vs []*Opnd
	d := DVals(2, 1, true, 34, 0)
	for i := 0; i < len(d); i += 6 {
		vs = append(vs, d[i])
	}
	for _, v := range WVecs(2, S7) {
		vs = append(vs, mkWords(false, v, 1, 0, 0), mkWords(true, v, -20, 0, 0))
	}
	for _, n := range []int{3, 4, 5, 8, 13, 33, 70} {
		ps := natPatterns(n, []uint64{BW - 1, 1, BW / 2}, []uint64{0, BW - 1})
		for i, p := range ps {
			vs = append(vs, mkWords(i%2 == 1, p, int64(i%5)-2, 0, 0))
		}
	}
	vs = append(vs, mkSpecial(fZero, false, 34, 0), mkSpecial(fZero, true, 34, 0), mkSpecial(fInf, false, 34, 0), mkSpecial(fInf, true, 34, 0))
	return vs
}

type tdigest struct {
	h    [32]byte
	dump bool
	n    int
}

func (t *tdigest) add(key string, s string) {
	x := sha256.Sum256(append(append(t.h[:], []byte(key)...), []byte(s)...))
	t.h = x
	t.n++
	if t.dump {
		fmt.Printf("CASE %s -> %s\n", key, s)
	}
}

func obsString(o Obs) string {
	b := make([]byte, 0, 64)
	b = append(b, byte(o.Form), byte(b2u(o.Neg)), o.Mode, byte(o.Acc))
	b = binary.BigEndian.AppendUint32(b, o.Prec)
	if o.Form == fFinite {
		b = binary.BigEndian.AppendUint32(b, uint32(o.Exp))
		for _, w := range o.Words {
			b = binary.BigEndian.AppendUint64(b, w)
		}
	}
	return hex.EncodeToString(b)
}

func transcriptMain(args []string) int {
	shard, nshard, dump := 0, 1, -1
	for i := 0; i < len(args); i++ {
		switch args[i] {
		case "--shard":
			i++
			fmt.Sscanf(args[i], "%d/%d", &shard, &nshard)
		case "--dump":
			i++
			dump, _ = strconv.Atoi(args[i])
		}
	}
	vs := transcriptValues()
	ds := buildAll(vs)
	type pm struct {
		p uint32
		m uint8
	}
	pms := []pm{{1, 0}, {5, 2}, {19, 3}, {20, 4}, {38, 5}, {57, 1}, {100, 0}}
	for xi := range vs {
		if xi%nshard != shard {
			continue
		}
		if dump >= 0 && xi != dump {
			continue
		}
		t := &tdigest{dump: dump >= 0}
		x, xo := ds[xi], vs[xi]
		run := func(key string, f func() string) {
			var s string
			pv, _ := protect(func() { s = f() })
			if pv != nil {
				s = fmt.Sprintf("panic:%v", pv)
			}
			t.add(key, s)
		}
		for yi := range vs {
			y := ds[yi]
			for op := opAdd; op <= opQuo; op++ {
				for _, q := range pms {
					run(fmt.Sprintf("%s x#%d y#%d p%d m%d", opNames[op], xi, yi, q.p, q.m), func() string {
						z := fresh(q.p, q.m)
						doBin(op, z, x, y)
						return obsString(Observe(z))
					})
				}
			}
			if yi%7 == xi%7 {
				for _, q := range pms[:4] {
					run(fmt.Sprintf("FMA x#%d y#%d u#%d p%d m%d", xi, yi, (xi+yi)%len(vs), q.p, q.m), func() string {
						z := fresh(q.p, q.m)
						z.FMA(x, y, ds[(xi+yi)%len(vs)])
						return obsString(Observe(z))
					})
				}
			}
			run(fmt.Sprintf("Cmp x#%d y#%d", xi, yi), func() string { return fmt.Sprint(x.Cmp(y)) })
		}
		for _, q := range pms {
			run(fmt.Sprintf("Sqrt x#%d p%d m%d", xi, q.p, q.m), func() string {
				z := fresh(q.p, q.m)
				z.Sqrt(x)
				return obsString(Observe(z))
			})
			run(fmt.Sprintf("Set x#%d p%d m%d", xi, q.p, q.m), func() string {
				z := fresh(q.p, q.m)
				z.Set(x)
				return obsString(Observe(z))
			})
		}
		for _, f := range []byte{'e', 'f', 'g', 'p', 'b'} {
			for _, p := range []int{-1, 0, 3, 25} {
				if f == 'f' && xo.Form == fFinite && (xo.Exp > 2000 || xo.Exp < -2000) {
					continue
				}
				run(fmt.Sprintf("Text x#%d %c %d", xi, f, p), func() string { return x.Text(f, p) })
			}
		}
		run(fmt.Sprintf("Parse x#%d", xi), func() string {
			s := x.Text('e', -1)
			z := fresh(20, 3)
			_, _, err := z.Parse(s, 0)
			return obsString(Observe(z)) + fmt.Sprint(err)
		})
		run(fmt.Sprintf("Int x#%d", xi), func() string {
			i, a := x.Int(nil)
			return fmt.Sprint(i, a)
		})
		run(fmt.Sprintf("Int64 x#%d", xi), func() string { i, a := x.Int64(); return fmt.Sprint(i, a) })
		run(fmt.Sprintf("Uint64 x#%d", xi), func() string { i, a := x.Uint64(); return fmt.Sprint(i, a) })
		run(fmt.Sprintf("Float64 x#%d", xi), func() string { i, a := x.Float64(); return fmt.Sprint(i, a) })
		run(fmt.Sprintf("Rat x#%d", xi), func() string {
			if xo.Form == fFinite && (xo.Exp > 3000 || xo.Exp < -3000) {
				return "skipped"
			}
			r, a := x.Rat(nil)
			return fmt.Sprint(r, a)
		})
		run(fmt.Sprintf("Gob x#%d", xi), func() string { b, e := x.GobEncode(); return hex.EncodeToString(b) + fmt.Sprint(e) })
		run(fmt.Sprintf("SetInt x#%d", xi), func() string {
			if xo.Form != fFinite || xo.Exp > 2000 || xo.Exp < -2000 {
				return "skipped"
			}
			i, _ := x.Int(nil)
			i.Mul(i, big.NewInt(1234567))
			z := fresh(uint32(20+xi%30), uint8(xi%6))
			z.SetInt(i)
			return obsString(Observe(z))
		})
		run(fmt.Sprintf("SetFloat64 x#%d", xi), func() string {
			f, _ := x.Float64()
			z := fresh(uint32(5+xi%30), uint8(xi%6))
			z.SetFloat64(f)
			return obsString(Observe(z))
		})
		fmt.Printf("CHUNK %d %s %d\n", xi, hex.EncodeToString(t.h[:8]), t.n)
	}
	_ = decimal.MaxExp
	return 0
}

func init() {
	specials["transcript"] = func(args []string) int {
		selfCheck()
		return transcriptMain(args)
	}
	_ = os.Stderr
}
