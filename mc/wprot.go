package main

// Write-protection monitor: operands (the Decimal struct and its mantissa
// array) live in mmap'ed pages that are made read-only; any store through an
// operand — including write-then-restore, and stores made by assembly — faults
// and is turned into a recoverable panic. Used by C09 and C18.

import (
	"encoding/json"
	"fmt"
	"math/big"
	"runtime/debug"
	"strings"
	"syscall"
	"unsafe"

	"github.com/db47h/decimal"
)

type protArena struct {
	mem  []byte
	off  int
	decs []*Dec
}

func newProtArena(size int) *protArena {
	mem, err := syscall.Mmap(-1, 0, size, syscall.PROT_READ|syscall.PROT_WRITE, syscall.MAP_ANON|syscall.MAP_PRIVATE)
	if err != nil {
		panic("mmap: " + err.Error())
	}
	return &protArena{mem: mem}
}

func (a *protArena) alloc(n int) unsafe.Pointer {
	a.off = (a.off + 63) &^ 63
	if a.off+n > len(a.mem) {
		panic("protArena: out of space")
	}
	p := unsafe.Pointer(&a.mem[a.off])
	a.off += n
	return p
}

// place builds operand o inside the arena (struct and mantissa array).
func (a *protArena) place(o *Opnd) *Dec {
	d := (*Dec)(a.alloc(int(unsafe.Sizeof(Dec{}))))
	*d = Dec{}
	d.SetMode(decimal.RoundingMode(o.Mode))
	if o.Form != fFinite && o.Stale != 0 {
		// a special with a history: the variable held a finite value (mantissa inside the arena) before
		k := staleKinds[o.Stale]
		n := len(k.words)
		ws := unsafe.Slice((*Word)(a.alloc(8*n)), n)
		for i, w := range k.words {
			ws[i] = Word(w)
		}
		d.SetPrec(60)
		d.SetBitsExp(ws, k.exp)
		if o.Form == fZero {
			d.SetUint64(0)
		}
	}
	switch o.Form {
	case fZero:
		d.SetPrec(uint(o.Prec))
		if o.Neg {
			d.Neg(d)
		}
	case fInf:
		d.SetPrec(uint(o.Prec))
		d.SetInf(o.Neg)
	default:
		if o.Gob {
			// decoded from a gob payload: the struct lives in the arena, the mantissa array stays where
			// the decoder allocated it (the caller compares its words before and after)
			src := viaGob(o)
			if src == nil {
				panic("protArena.place: gob payload rejected")
			}
			*d = *src
			break
		}
		// the mantissa gets spare capacity inside the protected pages (as mantissas produced by
		// arithmetic have): a store just behind the operand's last word faults too
		n := len(o.Words)
		ws := unsafe.Slice((*Word)(a.alloc(8*(n+3))), n+3)[:n]
		for i, w := range o.Words {
			ws[i] = Word(w)
		}
		d.SetPrec(uint(o.Prec))
		d.SetBitsExp(ws, o.Exp)
		if o.Neg {
			d.Neg(d)
		}
	}
	d.SetMode(decimal.RoundingMode(o.Mode))
	if msg := o.CheckBuilt(d); msg != "" {
		panic("protArena.place: " + msg)
	}
	a.decs = append(a.decs, d)
	return d
}

func (a *protArena) protect() {
	if err := syscall.Mprotect(a.mem, syscall.PROT_READ); err != nil {
		panic("mprotect: " + err.Error())
	}
}

func (a *protArena) release() {
	syscall.Mprotect(a.mem, syscall.PROT_READ|syscall.PROT_WRITE)
	syscall.Munmap(a.mem)
	a.mem = nil
}

func isFault(pv interface{}) bool {
	if pv == nil {
		return false
	}
	s := fmt.Sprint(pv)
	return strings.Contains(s, "fault address") || strings.Contains(s, "invalid memory address")
}

// roOp is an operation that must not write through its Decimal operands.
type roOp struct {
	name  string
	arity int
	f     func(z *Dec, a []*Dec) string // returns a digest of the result
}

func roOps() []roOp {
	obs := func(z *Dec) string { return Observe(z).String() }
	return []roOp{
		{"Add", 2, func(z *Dec, a []*Dec) string { return obs(z.Add(a[0], a[1])) }},
		{"Sub", 2, func(z *Dec, a []*Dec) string { return obs(z.Sub(a[0], a[1])) }},
		{"Mul", 2, func(z *Dec, a []*Dec) string { return obs(z.Mul(a[0], a[1])) }},
		{"Quo", 2, func(z *Dec, a []*Dec) string { return obs(z.Quo(a[0], a[1])) }},
		{"Mul(x,x)", 1, func(z *Dec, a []*Dec) string { return obs(z.Mul(a[0], a[0])) }},
		{"FMA", 3, func(z *Dec, a []*Dec) string { return obs(z.FMA(a[0], a[1], a[2])) }},
		{"Sqrt", 1, func(z *Dec, a []*Dec) string { return obs(z.Sqrt(a[0])) }},
		{"Set", 1, func(z *Dec, a []*Dec) string { return obs(z.Set(a[0])) }},
		{"Neg", 1, func(z *Dec, a []*Dec) string { return obs(z.Neg(a[0])) }},
		{"Abs", 1, func(z *Dec, a []*Dec) string { return obs(z.Abs(a[0])) }},
		{"Copy", 1, func(z *Dec, a []*Dec) string { return obs(z.Copy(a[0])) }},
		{"SetMantExp", 1, func(z *Dec, a []*Dec) string { return obs(z.SetMantExp(a[0], 3)) }},
		{"MantExp(out)", 1, func(z *Dec, a []*Dec) string { e := a[0].MantExp(z); return fmt.Sprint(e, obs(z)) }},
		{"MantExp(nil)", 1, func(z *Dec, a []*Dec) string { return fmt.Sprint(a[0].MantExp(nil)) }},
		{"Cmp", 2, func(z *Dec, a []*Dec) string { return fmt.Sprint(a[0].Cmp(a[1]), a[1].Cmp(a[0])) }},
		{"predicates", 1, func(z *Dec, a []*Dec) string {
			x := a[0]
			return fmt.Sprint(x.Sign(), x.Signbit(), x.IsInf(), x.IsZero(), x.IsInt(), x.MinPrec(), x.Prec(), x.Mode(), x.Acc())
		}},
		{"Text", 1, func(z *Dec, a []*Dec) string {
			x := a[0]
			return x.Text('e', -1) + x.Text('f', 3) + x.Text('g', 5) + x.Text('p', 0) + x.Text('b', 0) + x.String()
		}},
		{"Sprintf", 1, func(z *Dec, a []*Dec) string { return fmt.Sprintf("%v %10.3f %+e %-12g", a[0], a[0], a[0], a[0]) }},
		{"Append", 1, func(z *Dec, a []*Dec) string { return string(a[0].Append(nil, 'g', 7)) }},
		{"MarshalText/JSON", 1, func(z *Dec, a []*Dec) string {
			b, _ := a[0].MarshalText()
			j, _ := json.Marshal(a[0])
			return string(b) + string(j)
		}},
		{"GobEncode", 1, func(z *Dec, a []*Dec) string { b, _ := a[0].GobEncode(); return fmt.Sprintf("%x", b) }},
		{"Int", 1, func(z *Dec, a []*Dec) string {
			if e := a[0].MantExp(nil); e > 5000 {
				return "skipped"
			}
			i, acc := a[0].Int(nil)
			return fmt.Sprint(i, acc)
		}},
		{"Int64/Uint64", 1, func(z *Dec, a []*Dec) string {
			i, a1 := a[0].Int64()
			u, a2 := a[0].Uint64()
			return fmt.Sprint(i, a1, u, a2)
		}},
		{"Rat", 1, func(z *Dec, a []*Dec) string {
			if e := a[0].MantExp(nil); e > 5000 || e < -5000 {
				return "skipped"
			}
			r, acc := a[0].Rat(nil)
			return fmt.Sprint(r, acc)
		}},
		{"Float", 1, func(z *Dec, a []*Dec) string {
			f := a[0].Float(nil)
			return f.Text('g', 20)
		}},
		{"Float(z)", 1, func(z *Dec, a []*Dec) string { return a[0].Float(new(big.Float).SetPrec(100)).Text('g', 20) }},
		{"Float32/64", 1, func(z *Dec, a []*Dec) string {
			f, a1 := a[0].Float64()
			g, a2 := a[0].Float32()
			return fmt.Sprint(f, a1, g, a2)
		}},
		{"BitsExp", 1, func(z *Dec, a []*Dec) string { m, e := a[0].BitsExp(); return fmt.Sprint(len(m), e) }},
	}
}

func wprotOperands(tier string) []*Opnd {
	var vs []*Opnd
	for i, cf := range DCoefs(2) {
		if i%9 == 0 {
			vs = append(vs, mkInt64(cf, int64(i%5)-2, 34, uint8(i%6)))
		}
	}
	vs = append(vs, mkInt64(-225, 0, 5, ToZero), mkInt64(9, 0, 1, ToPositiveInf))
	for i, v := range WVecs(3, S7) {
		if i%11 == 0 {
			vs = append(vs, mkWords(i%2 == 1, v, int64(i%40)-20, 0, uint8(i%6)))
		}
	}
	// integers that exactly fill their words, and one digit more/less (shift-free paths of Int/Rat/Int64)
	for _, v := range [][]uint64{{BW - 1}, {BW - 1, BW - 1}, {1, BW / 10}, {0, BW / 2}, {5, 0, BW - 2}} {
		n := int64(len(v)) * DW
		for _, e := range []int64{n, n - 1, n + 1, n + 19} {
			vs = append(vs, mkWords(e%2 == 0, v, e, 0, 0))
		}
	}
	for _, n := range []int{30, 31, 32, 64, 100, 128} { // 30/31/32: operands whose lengths differ by exactly one word
		for j, p := range natPatterns(n, []uint64{BW - 1, BW / 2}, []uint64{1}) {
			if j%3 == 0 {
				vs = append(vs, mkWords(j%2 == 0, p, 5, 0, 0))
			}
		}
	}
	// values that arrived through gob with more low zero words than the precision needs
	for i, v := range [][]uint64{{0, 0, 1234500000000000000}, {0, BW - 1}, {0, 0, 5, BW / 10}, {0, 1234567890123456789, BW / 2}} {
		o := mkWords(i%2 == 1, v, int64(i)*7-3, uint32(minPrecWords(v)), uint8(i))
		o.Gob = true
		vs = append(vs, o)
	}
	vs = append(vs, mkSpecial(fZero, false, 5, 0), mkSpecial(fZero, true, 0, 2), mkSpecial(fInf, false, 5, 0), mkSpecial(fInf, true, 9, 4))
	// ±0 / ±Inf in variables that held a finite value before (stale mantissa and exponent)
	vs = append(vs, mkSpecial(fZero, false, 5, 1).withStale(1), mkSpecial(fZero, true, 7, 3).withStale(2), mkSpecial(fZero, false, 9, 0).withStale(3),
		mkSpecial(fInf, true, 5, 0).withStale(4), mkSpecial(fInf, false, 5, 5).withStale(3))
	return vs
}

func wprotLayers(tier string, prop string) []Layer {
	ops := roOps()
	var vals []*Opnd
	nv := len(wprotOperands(tier))
	return []Layer{{
		Name:   "W1-write-protected-operands",
		Units:  nv,
		Bounds: fmt.Sprintf("%d operations that take Decimal operands (arithmetic, FMA, Sqrt, Set/Neg/Abs/Copy, SetMantExp/MantExp, Cmp, predicates, Text/Format/Append, text/JSON/gob encoders, Int/Int64/Uint64/Rat/Float/Float32/Float64, BitsExp) × operand tuples over %d values (digits, word-edge, 31..128-word values that use the pooled scratch paths, ±0, ±Inf, also with a stale finite history) with the operand structs, their mantissa arrays and Sqrt's shared constants in PROT_READ memory: any store faults; results must equal those on ordinary memory", len(ops), nv),
		Run: func(c *Ctx, u int) {
			if vals == nil {
				vals = wprotOperands(tier)
			}
			debug.SetPanicOnFault(true)
			// under the adversarial scratch pool: a buffer handed to the pool is poisoned at once, so an
			// operand's own array that is (wrongly) put into the pool faults right there
			prevPool, prevGet, prevPut := theAdvPool, decimal.VerifPoolGetFn, decimal.VerifPoolPutFn
			installAdvPool(64)
			defer func() { theAdvPool, decimal.VerifPoolGetFn, decimal.VerifPoolPutFn = prevPool, prevGet, prevPut }()
			x := vals[u]
			for yi := 0; yi < len(vals); yi += 1 {
				if c.Done() {
					return
				}
				y := vals[yi]
				uo := vals[(u+yi)%len(vals)]
				// exponent gaps would make Add allocate ∝ gap: skip far-apart pairs for the binary additive ops
				far := x.Form == fFinite && y.Form == fFinite && abs64(x.Exp-y.Exp) > 3000
				ar := newProtArena(1 << 16)
				px, py, pu := ar.place(x), ar.place(y), ar.place(uo)
				// every package-level *Decimal (Sqrt's constants and whatever else the sources declare)
				gnames, gptrs := decimal.VerifGlobalDecimals()
				saved := make([]*Dec, len(gptrs))
				for gi, gp := range gptrs {
					saved[gi] = *gp
					*gp = ar.place(opndFromObs(Observe(*gp)))
				}
				_ = gnames
				ar.protect()
				for oi := range ops {
					op := &ops[oi]
					if op.arity == 1 && yi != 0 {
						continue
					}
					if far && (op.name == "Add" || op.name == "Sub" || op.name == "FMA") {
						continue
					}
					if op.name == "Sqrt" && x.Neg && x.Form != fZero {
						continue
					}
					if c.Skip() {
						continue
					}
					args := []*Dec{px, py, pu}[:op.arity]
					plain := []*Dec{x.Build(), y.Build(), uo.Build()}[:op.arity]
					var before []Obs
					for ai, ao := range []*Opnd{x, y, uo}[:op.arity] {
						if ao.Gob {
							before = append(before, Observe(args[ai]))
						}
					}
					for _, zp := range []uint32{0, 7, 40} {
						var got, want string
						z := buildPre(preFresh, zp, ToNearestEven)
						pv, isNaN := protect(func() { got = op.f(z, args) })
						z2 := buildPre(preFresh, zp, ToNearestEven)
						pv2, _ := protect(func() { want = op.f(z2, plain) })
						key := fmt.Sprintf("%s x=%s y=%s u=%s zprec=%d [write-protected operands]", op.name, x, y, uo, zp)
						if zp == 0 {
							c.NonTrivial()
						}
						switch {
						case isFault(pv):
							c.Fail(key, fmt.Sprintf("the operation wrote through an operand or a shared constant: %v", pv))
						case pv != nil && !isNaN:
							c.Fail(key, fmt.Sprintf("panic: %v", pv))
						case (pv == nil) != (pv2 == nil) || got != want:
							c.Fail(key, fmt.Sprintf("result on protected operands %q (panic %v) differs from ordinary memory %q (panic %v)", got, pv, want, pv2))
						}
						bi := 0
						for ai, ao := range []*Opnd{x, y, uo}[:op.arity] {
							if ao.Gob {
								if now := Observe(args[ai]); now.String() != before[bi].String() || now.Len != before[bi].Len {
									c.Fail(key, fmt.Sprintf("operand %d (decoded from gob, mantissa outside the protected pages) changed: %s -> %s", ai, before[bi], now))
								}
								bi++
							}
						}
					}
				}
				for gi, gp := range gptrs {
					*gp = saved[gi]
				}
				ar.release()
			}
		},
	}}
}
