#!/usr/bin/env python3
"""Append the rows of later partial outputs of scripts/seedall.sh to seeded/RESULTS.md (whose earlier parts are not kept).
usage: appendresults.py <part.md>:<verif commit> ...   (replay paths are made relative; re-run seeds supersede their old rows)"""
import re, sys
out = 'seeded/RESULTS.md'
lines = open(out).read().splitlines()
head = lines[0]
notes = [l for l in lines if l.startswith('* ')]
rows = [l for l in lines if l.startswith('| C')]
extra = [l for l in lines if 'withdrawn' in l and not l.startswith('|') and not l.startswith('*')]
for p in sys.argv[1:]:
    path, _, commit = p.partition(':')
    pl = open(path).read().splitlines()
    head = pl[0]
    rs = [re.sub(r'/root/\.vp/runs/\d+/verif/', '', l) for l in pl if l.startswith('| C')]
    seeds = sorted({r.split('|')[1].strip() for r in rs})
    notes.append(f"* {len(seeds)} seeds, {len(rs)} (seed, check) rows: /verif commit {commit}")
    rows = [r for r in rows if r.split('|')[1].strip() not in seeds] + rs
def key(r):
    a, b = r.split('|')[1].strip().split('-')
    return (a, int(b))
rows.sort(key=key)
bad = [r for r in rows if r.split('|')[4].strip() != '1']
with open(out, 'w') as f:
    f.write(head + "\n\n")
    f.write("Produced by `scripts/seedall.sh quick <ids>` in parts (the checks only gained layers between the parts, so a seed reported by an earlier commit stays reported):\n\n")
    f.write("\n".join(notes) + "\n\n")
    f.write(f"{len({r.split('|')[1].strip() for r in rows})} seeds, {len(rows)} rows, {len(bad)} rows with an exit code other than 1 (C12-9 was withdrawn after fix bd1fb0e).\n\n")
    f.write("| seed | breaks | check | exit | first violation |\n|---|---|---|---|---|\n")
    f.write("\n".join(rows) + "\n")
print(len(rows), "rows;", len(bad), "not caught")
