#!/bin/bash
# usage: check.sh <Cnn> quick|thorough      run the check (rebuilds from /repo's working tree)
#        check.sh <Cnn> replay <file>       re-execute one recorded case
# exit 0 = held on everything explored, 1 = VIOLATION printed, 2 = harness/build error
set -u
here="$(cd "$(dirname "$0")/.." && pwd)"
. "$here/scripts/env.sh"
export VERIF_DIR="$here"
id="$1"; mode="${2:-quick}"
mkdir -p "$here/bin" "$here/evidence" "$here/replays"
bin="$here/bin/check.$$"
ovl="$(mktemp -d /tmp/verif-ovl.XXXXXX)"
trap 'rm -rf "$bin" "$ovl"' EXIT
tags="verif"; ovlflags=""
case "$id" in C18) tags="verif decimal_pure_go"; ovlflags="--points" ;; esac
python3 "$here/scripts/overlay.py" "$ovl" $ovlflags || exit 2
mf="$(modflag "$ovl")"
if ! (cd "$here/mc" && go build $mf -tags "$tags" -overlay "$ovl/overlay.json" -o "$bin" . ) 2> "$bin.err"; then
  echo "HARNESS-ERROR: build failed" >&2; cat "$bin.err" >&2; rm -f "$bin.err"; exit 2
fi
rm -f "$bin.err"
trc=0
if [ "$id" = "C07" ] && [ "$mode" != "replay" ]; then
  export VERIF_EXTRA_EVIDENCE="$ovl/transcripts.json"
  "$here/scripts/transcripts.sh" "$VERIF_EXTRA_EVIDENCE"; trc=$?
  if [ $trc -ge 2 ]; then exit 2; fi
fi
case "$mode" in
  quick|thorough) "$bin" "$id" --tier "$mode"; rc=$?; if [ $rc -eq 0 ] && [ $trc -eq 1 ]; then rc=1; fi ;;
  replay) "$bin" "$id" --replay "$3"; rc=$? ;;
  *) echo "usage: check.sh Cnn quick|thorough|replay <file>" >&2; rc=2 ;;
esac
exit $rc
