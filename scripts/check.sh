#!/bin/bash
# usage: check.sh <Cnn> quick|thorough      run the check (rebuilds from /repo's working tree)
#        check.sh <Cnn> replay <file>       re-execute one recorded case
# exit 0 = held on everything explored, 1 = VIOLATION printed, 2 = harness/build error
set -u
here="$(cd "$(dirname "$0")/.." && pwd)"
. "$here/scripts/env.sh"
export VERIF_DIR="$here"
id="$1"; mode="${2:-quick}"
mkdir -p "$here/bin" "$here/evidence" "$here/replays"
bin="$here/bin/check.$$"
ovl="$(mktemp -d /tmp/verif-ovl.XXXXXX)"
trap 'rm -rf "$bin" "$ovl"' EXIT
tags="verif"; ovlflags=""
case "$id" in C18) tags="verif decimal_pure_go"; ovlflags="--points" ;; esac
python3 "$here/scripts/overlay.py" "$ovl" $ovlflags || exit 2
mf="$(modflag "$ovl")"
if ! (cd "$here/mc" && go build $mf -tags "$tags" -overlay "$ovl/overlay.json" -o "$bin" . ) 2> "$bin.err"; then
  echo "HARNESS-ERROR: build failed" >&2; cat "$bin.err" >&2; rm -f "$bin.err"; exit 2
fi
rm -f "$bin.err"
if [ "$id" = "C18" ] && [ "$mode" != "replay" ]; then
  # supporting pass: the same thread bodies free-running under the race detector (pure-Go kernels so that
  # kernel stores are instrumented). A reported race fails the check; silence proves nothing.
  rbin="$here/bin/race.$$"
  if ! (cd "$here/mc" && go build $mf -race -tags "$tags" -overlay "$ovl/overlay.json" -o "$rbin" . ) 2> "$bin.err"; then
    echo "HARNESS-ERROR: -race build failed" >&2; cat "$bin.err" >&2; rm -f "$bin.err" "$rbin"; exit 2
  fi
  GORACE="halt_on_error=0 exitcode=66" timeout 1500 "$rbin" racepass > "$ovl/race.log" 2>&1; rrc=$?
  rm -f "$rbin" "$bin.err"
  races=$(grep -c 'WARNING: DATA RACE' "$ovl/race.log")
  python3 - "$ovl/race.json" "$races" "$rrc" <<'PY'
import json,sys
import re
m=re.search(r"racepass: completed (\d+) scenarios x (\d+) rounds", open(sys.argv[1].replace("race.json","race.log")).read())
json.dump({"race_pass":{"build":"-race -tags 'verif decimal_pure_go'","scenarios":int(m.group(1)) if m else 0,"rounds":int(m.group(2)) if m else 0,"gomaxprocs":[2,16],"data_races_reported":int(sys.argv[2]),"exit":int(sys.argv[3])}},open(sys.argv[1],"w"))
PY
  export VERIF_EXTRA_EVIDENCE="$ovl/race.json"
  if [ "$races" -gt 0 ]; then
    mkdir -p "$here/replays"; cp "$ovl/race.log" "$here/replays/C18-race.log"
    echo "VIOLATION property=C18 replay=$here/replays/C18-race.log"
    echo "  the race detector reported $races data race(s) in the free-running pass:"; grep -A12 'WARNING: DATA RACE' "$ovl/race.log" | head -30
    racefail=1
  elif [ $rrc -eq 124 ]; then
    # the whole pass ran out of its (generous) time limit without any scenario hanging (a hang is detected per
    # scenario by the pass itself, exit 3): a slow or busy machine, not a verdict about the code. Supporting pass only.
    echo "NOTE: free-running race pass did not complete within its time limit; no race and no hang observed so far (inconclusive, not counted)"
  elif [ $rrc -eq 3 ]; then
    mkdir -p "$here/replays"; cp "$ovl/race.log" "$here/replays/C18-race.log"
    echo "VIOLATION property=C18 replay=$here/replays/C18-race.log"
    echo "  the free-running concurrent pass did not terminate (exit $rrc): $(grep NON-TERMINATION "$ovl/race.log" | head -1)"
    racefail=1
  elif [ $rrc -ne 0 ]; then
    echo "HARNESS-ERROR: race pass exited with $rrc" >&2; tail -20 "$ovl/race.log" >&2; exit 2
  fi
fi
if [ "$id" = "C18" ] && [ "$mode" != "replay" ]; then
  # second supporting pass: the same bodies free-running in the DEFAULT build (assembly kernels are invisible to
  # the race detector and to the cooperative scheduler); every result is compared with the sequential one.
  sbin="$here/bin/stress.$$"
  if ! (cd "$here/mc" && go build $mf -tags verif -overlay "$ovl/overlay.json" -o "$sbin" . ) 2> "$bin.err"; then
    echo "HARNESS-ERROR: default-tags build failed" >&2; cat "$bin.err" >&2; rm -f "$bin.err" "$sbin"; exit 2
  fi
  timeout 900 "$sbin" stresspass > "$ovl/stress.log" 2>&1; src=$?
  rm -f "$sbin" "$bin.err"
  python3 - "$ovl/race.json" "$ovl/stress.log" "$src" <<'PY'
import json,sys,re
d=json.load(open(sys.argv[1]))
log=open(sys.argv[2]).read()
m=re.search(r"stresspass: completed (\d+) scenarios x (\d+) rounds x (\d+) copies x (\d+) iterations, default build; mismatches: (\d+)", log)
d["stress_pass"]={"build":"-tags verif (default: assembly kernels)","gomaxprocs":16,"exit":int(sys.argv[3]),
  "scenarios":int(m.group(1)) if m else 0,"rounds":int(m.group(2)) if m else 0,"copies":int(m.group(3)) if m else 0,"iterations":int(m.group(4)) if m else 0,
  "mismatches":int(m.group(5)) if m else log.count("STRESS-MISMATCH")}
json.dump(d,open(sys.argv[1],"w"))
PY
  if [ $src -eq 4 ] || [ $src -eq 3 ]; then
    mkdir -p "$here/replays"; cp "$ovl/stress.log" "$here/replays/C18-stress.log"
    echo "VIOLATION property=C18 replay=$here/replays/C18-stress.log"
    echo "  concurrent executions in the default (assembly) build differ from the sequential results:"; grep 'STRESS-MISMATCH\|NON-TERMINATION' "$ovl/stress.log" | head -5
    racefail=1
  elif [ $src -eq 124 ]; then
    echo "NOTE: free-running stress pass did not complete within its time limit (inconclusive, not counted)"
  elif [ $src -ne 0 ]; then
    echo "HARNESS-ERROR: stress pass exited with $src" >&2; tail -20 "$ovl/stress.log" >&2; exit 2
  fi
fi
trc=${racefail:-0}
if [ "$id" = "C07" ] && [ "$mode" != "replay" ]; then
  export VERIF_EXTRA_EVIDENCE="$ovl/transcripts.json"
  "$here/scripts/transcripts.sh" "$VERIF_EXTRA_EVIDENCE"; trc=$?
  if [ $trc -ge 2 ]; then exit 2; fi
fi
case "$mode" in
  quick|thorough) "$bin" "$id" --tier "$mode"; rc=$?; if [ $rc -eq 0 ] && [ $trc -eq 1 ]; then rc=1; fi ;;
  replay) "$bin" "$id" --replay "$3"; rc=$? ;;
  *) echo "usage: check.sh Cnn quick|thorough|replay <file>" >&2; rc=2 ;;
esac
exit $rc
