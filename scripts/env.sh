# common environment for every verification command (offline Go)
export GOFLAGS=-mod=mod GOPROXY=off GOSUMDB=off GOTOOLCHAIN=local
export CARGO_NET_OFFLINE=true PIP_NO_INDEX=1
export VERIF_DIR="${VERIF_DIR:-/verif}"
