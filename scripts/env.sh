# common environment for every verification command (offline Go)
export GOFLAGS=-mod=mod GOPROXY=off GOSUMDB=off GOTOOLCHAIN=local
export CARGO_NET_OFFLINE=true PIP_NO_INDEX=1
export VERIF_DIR="${VERIF_DIR:-/verif}"

# The repository under test. Registered checks always use /repo; VERIF_REPO lets the seed runner
# point the same scripts at a scratch copy so that /repo itself is never patched.
export VERIF_REPO="${VERIF_REPO:-/repo}"
# modflag <tmpdir>: prints a -modfile flag selecting a go.mod whose replace points at $VERIF_REPO
modflag() {
  if [ "$VERIF_REPO" = "/repo" ]; then return 0; fi
  sed "s#=> /repo#=> $VERIF_REPO#" "$VERIF_DIR/mc/go.mod" > "$1/go.mod"
  echo "-modfile=$1/go.mod"
}
# Evidence of a run against a scratch copy is kept apart from the evidence of /repo.
if [ "$VERIF_REPO" != "/repo" ]; then export VERIF_EVIDENCE_DIR="${VERIF_EVIDENCE_DIR:-$VERIF_DIR/replays/seed-evidence}"; fi
