#!/usr/bin/env python3
"""Merge the partial outputs of scripts/seedall.sh (SEEDALL_OUT=...) into seeded/RESULTS.md.
usage: mergeresults.py <out.md> <part.md>:<verif commit> ...   (replay paths are made relative)"""
import re, sys
out, parts = sys.argv[1], sys.argv[2:]
rows, notes, head = [], [], None
for p in parts:
    path, _, commit = p.partition(':')
    lines = open(path).read().splitlines()
    if head is None:
        head = lines[0]
    rs = [re.sub(r'/root/\.vp/runs/\d+/verif/', '', l) for l in lines if l.startswith('| C')]
    seeds = sorted({r.split('|')[1].strip() for r in rs})
    notes.append(f"* {len(seeds)} seeds, {len(rs)} (seed, check) rows: /verif commit {commit}")
    # a later part supersedes the rows of the seeds it re-runs
    rows = [r for r in rows if r.split('|')[1].strip() not in seeds] + rs
def key(r):
    s = r.split('|')[1].strip()
    a, b = s.split('-')
    return (a, int(b))
rows.sort(key=key)
bad = [r for r in rows if r.split('|')[4].strip() != '1']
with open(out, 'w') as f:
    f.write(head + "\n\n")
    f.write("Produced by `scripts/seedall.sh quick <ids>` in parts (the checks only gained layers between the parts, so a seed reported by an earlier commit stays reported):\n\n")
    f.write("\n".join(notes) + "\n\n")
    f.write(f"{len({r.split('|')[1].strip() for r in rows})} seeds, {len(rows)} rows, {len(bad)} rows with an exit code other than 1.\n\n")
    f.write("| seed | breaks | check | exit | first violation |\n|---|---|---|---|---|\n")
    f.write("\n".join(rows) + "\n")
print(len(rows), "rows;", len(bad), "not caught")
