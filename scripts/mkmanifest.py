#!/usr/bin/env python3
"""Regenerates /verif/MANIFEST.json. CLAIMED lists the properties whose checks exist and pass on the unchanged tree."""
import json, subprocess, os

CLAIMED = os.environ.get("CLAIMED", "C01 C02 C03 C04 C05 C06 C07 C08 C09 C10 C11 C12 C13 C14 C15 C16 C17 C18 C19 C20").split()

MC = "explicit-state bounded-exhaustive enumeration of real executions, each compared with a reference model (model checking of the implementation; no sampling)"
D = {
 "C01": ("E1", "Bounded-exhaustive enumeration of Add/Sub/Mul/Quo/Set/SetPrec/Neg/Abs over operand alphabets placed on the rounding model's decision boundaries (all 2-digit operands at all relative exponents, word-edge vectors with sub-word/multi-word alignment, run-length ties/near-ties/all-nines carries at every digit position, exact quotients q*y and q*y±1, long sparse dividends, range ends, zero operands) x precisions x all six modes; every execution of the real code is compared with an exact big.Int reference model (value, sign, exponent, range rule).",
         "Trusted: reference model mc/ref.go (self-checked against big.Rat at start-up), math/big. Values outside the stated alphabets are not covered (small-scope hypothesis).", MC),
 "C02": ("E1", "Same enumerated space as C01 plus the FMA space of C03 and the setter spaces (SetInt/SetInt64/SetUint64/SetRat/SetMantExp/NewDecimal/base-10 Parse); Acc() is compared with sign(stored - exact) computed from the observed stored value, independently of whether the value itself was rounded correctly.",
         "Trusted: reference model, math/big. Neg/Abs/float setters are not judged (not listed by the property).", MC),
 "C03": ("E1", "All triples over 58x58x904 digit-level operands incl. zeros and infinities, word-edge triples with shifted addends, constructive cancellation u = -(x*y)±delta, all 15 aliasing partitions of {z,x,y,u} with every receiver pre-state, product exponents beyond the range; each execution compared with the exact single-rounding model; the check also counts how often Mul-then-Add would differ (non-vacuity).",
         "Trusted: reference model. One recorded finding (product exponent outside the int32 range) is matched by input class AND exact defective behaviour; anything else is a violation.", MC),
 "C04": ("E1", "Every operation x every operand class combination {-Inf,-finite,-0,+0,+finite,+Inf}^k x all modes x receiver precisions {0,3,40} x finite magnitudes from one digit to 260 words; a panic classifier wraps every call: exactly the invalid operations must panic with ErrNaN and leave a canonical receiver, nothing else may panic.",
         "Trusted: the IEEE special-value table encoded in mc/ref.go.", MC),
 "C05": ("E1", "All x = c*10^e with c up to 4 digits (5 thorough) at 6 exponents (both parities), perfect squares r^2, r^2±1 and exact ties (10r+5)^2 for r in D(3), R(9), W(2,S7) and 15 roots with squares around 2^52..2^64, long run-length inputs, specials and range ends x 14 receiver precisions x 6 modes with x.mode != receiver mode and dirty receivers; compared with integer-sqrt-with-remainder; receiver Prec()/Mode() must be unchanged.",
         "Trusted: big.Int.Sqrt based model (self-checked by squaring). Acc() after Sqrt is not judged (not stated).", MC),
 "C06": ("E1+hook", "dec.mul/sqr/div driven through the verif hook under an adversarial scratch pool: every length pair in a 14x14 grid (48x48 thorough) plus large unbalanced pairs x 10 Karatsuba thresholds incl. odd ones x squaring-threshold assignments; every u in W(5,S7) by every v in W(3,S7) (5.7M divisions; S9/S12 thorough), constructive u=q*v+r, 99..200-word (400 thorough) divisors through the real recursive division with r in {0,1,v-1}; plus public Mul/Quo on large operands. Oracle: schoolbook base-1e19 reference (self-checked against math/big): product equality, q*v+r==u, r<v, words<1e19, operands unchanged.",
         "Trusted: 60-line reference arithmetic, math/bits. divRecursiveThreshold is a constant and only exercised at its shipped value. Pool replaced through a build-time overlay (scripts/overlay.py), never committed to /repo.", MC),
 "C07": ("E1+hook+transcripts", "Each of the 12 decimal kernels and divWVW: assembly vs portable twin vs mathematical definition for all lengths 0..70, inputs with a carry/borrow chain starting and stopping at every index, all shift counts 0..18, in-place and overlapping destinations as the library uses them, guard words around the destination; scalar kernels over 79 edge values. Whole library: the same exhaustive 2.6M-case public-API enumeration is run by binaries built under 4 tag sets (default, decimal_pure_go, math_big_pure_go, both) and per-chunk SHA-256 digests must be identical.",
         "Trusted: definitions written with math/bits 128-bit primitives. amd64 only.", MC + "; differential transcript comparison across build configurations"),
 "C08": ("E2", "Breadth-first explicit-state search over API-call histories (setters, arithmetic, Sqrt, SetPrec/SetMode, parsing, gob decode of valid and hostile payloads, raw SetBitsExp) on 3 variables with aliasing, from the zero state and seeded non-initial states; the canonical-form invariant is evaluated in every reached state and numerically equal states must expose identical digits/exponent and Cmp==0.",
         "Trusted: mc/obs.go Canonical predicate. Depth 3 (quick) / 4 (thorough) with the stated operation menus.", "explicit-state BFS over operation histories on the real objects (state hashing on canonical observation incl. len/cap)"),
 "C09": ("E2+E1", "Same history search as C08 with the attribute model as judge (precision changes only from 0 and only to the documented value; mode never changes except for the documented copiers; non-receiver operands identical before/after) plus a per-operation attribute grid; operands additionally placed in write-protected memory (mprotect) so that even write-then-restore faults.",
         "Trusted: attribute table in mc/hist.go, mprotect-based write monitor (linux/amd64).", "explicit-state BFS over operation histories + bounded-exhaustive per-operation grid; write-protection monitor"),
 "C10": ("E1+E2", "Every operation x every aliasing partition of its variables x every receiver pre-state (fresh, held longer/shorter values, infinities, -0 with stale buffer, exact-capacity buffer, inexact negative, 40-word dirty buffer) x operands from digit, word-edge and 100-word layers; differential oracle: the same implementation run with a fresh receiver and unaliased deep-copied operands must give the identical observation; the exact model is applied as well; operands that are windows of one caller-owned word buffer (SetBitsExp shares the slice: identical, overlapping, adjacent windows) give the same outcome as independent copies.",
         "Trusted: differential oracle (same code, unaliased) + reference model.", MC),
 "C11": ("E1", "For every x in D(3) ∪ R(45) ∪ W(3,S7) (low/interior zero words) x exponents ±25 and range ends, ±0, ±Inf: Text/Append with e,E,f,g,G,p (-1) and b, MarshalText, JSON -> Parse base 10/0, SetString, UnmarshalText, JSON at receiver precisions >= MinPrec; parsed value must equal x exactly with Acc Exact and the output must contain exactly MinPrec significant digits.",
         "Trusted: digit extraction in the harness. 'f' only for moderate exponents.", MC),
 "C12": ("E1", "All strings of length <= 6 (7 thorough) over a 14-symbol alphabet x 5 bases against a reference grammar and, differentially, math/big Float.Parse (accept set and base); structured decimal literals split around the radix point everywhere with separators and huge exponents x precisions x modes against the exact literal evaluator; base 2/8/16 and p-exponent literals exact-or-within-1ulp; SetString/ParseDecimal/UnmarshalText/Sscan agree with Parse. Long mantissas cancelled by binary exponents of up to ±280000 bits (exact powers of two of 10^4+ digits).",
         "Trusted: reference grammar/evaluator in mc/parse.go, math/big as differential oracle for the accept set.", MC + "; differential against math/big"),
 "C13": ("E1", "Values (each also as the same value carrying accuracy Below/Above from an earlier operation) x 6 modes x formats e,E,f,g,G,p,b x precisions -1..40 (and every precision 0..300 on 7 values) against a reference formatter (round once at the requested position under x's mode, then strconv layout), fmt verbs x all 16 flag subsets x widths x precisions against fmt's own float64 formatting on float64-exact values; the reference formatter is pinned to strconv.FormatFloat in the same run.",
         "Trusted: reference formatter pinned to strconv/fmt of the toolchain.", MC),
 "C14": ("E1", "Int/Int64/Uint64/Rat/IsInt/MinPrec on values around 2^63, 2^64, 10^19 with fractional parts, D(3) x exponents, W(3,S7) x exponents, specials; SetInt/SetInt64/SetUint64/SetRat/NewDecimal over edge integers, 2^k±d and 10^k±d up to 4000 bits, rationals, exponent extremes x precisions x modes; oracle big.Int/big.Rat.",
         "Trusted: math/big.", MC),
 "C15": ("E1", "SetFloat64 over 16 mantissa patterns x all 2046 exponents + subnormals x precisions x modes (exact when the expansion fits, else <= 1 ulp), SetFloat over big.Float precisions/exponents incl. ±Inf/0, Float64/Float32 on exact floats, exact midpoints, midpoints*(1±10^-j) for j=16..45, saturation edges; oracle exact rational arithmetic.",
         "Trusted: math/big rational arithmetic; tolerance for the documented-naive conversions is 64 units (assumption).", MC),
 "C16": ("E1", "All ordered pairs over ~4000 decorated values (digit level, W(3,S7) with and without extra low zero words, run-length, range ends, ±0, ±Inf; independent precision/mode/accuracy decorations) against the sign of the exact difference, antisymmetry, all triples of a 300-value subset for transitivity; Sign/Signbit/IsZero/IsInf consistency.",
         "Trusted: exact comparison in mc/ref.go.", MC),
 "C17": ("E1", "Round trips of attribute-complete Decimals into zero-value and attributed receivers; hostile input: every byte string of length <= 3, and for 64 valid encodings every truncation, every single-byte substitution by all 256 values, header pair substitutions, extensions; decoding must never panic and must return an error or leave a canonical Decimal.",
         "Trusted: canonical predicate, model decode.", "exhaustive fault enumeration over byte strings and corruptions of valid encodings"),
 "C18": ("E3", "Cooperative-scheduler exploration of 2-3 goroutines sharing operands (47 scenarios incl. input conversions Parse/SetFloat64/SetRat next to readers): all interleavings at pool-operation granularity, preemption-bounded at kernel-call granularity, x every legal pool answer, under the adversarial pool with ownership tracking; every read-only operation on operands placed in PROT_READ memory (any store faults); free-running -race pass as supporting evidence.",
         "Trusted: scheduler owns every scheduling point through a build-time overlay; sequential consistency at kernel granularity.", "stateless model checking: DFS over schedules with iterative preemption bounding on the real code"),
 "C19": ("E2", "Breadth-first search over Context call histories (arithmetic, Sqrt, Neg/Abs/Set, Err, SetPrec/SetMode, New*, nil-operand calls) mixing valid and NaN-producing argument classes, plus per-operation layers (operand classes, factories, a far sticky digit in long operands, integers next to perfect squares around 2^52..2^64); model = latch automaton {armed, latched(e)} x reference rounding.",
         "Trusted: latch model in mc/ctxhist.go, reference rounding.", "explicit-state BFS over operation histories on the real Context"),
 "C20": ("E1", "SetBitsExp over every word vector of length 0..4 over S7 (all-zero, leading-zero, low-zero, unnormalised) x exponents incl. int64 extremes x receiver precisions incl. 0 x modes x pre-states; BitsExp after each; MantExp/SetMantExp inverse laws over values x offsets near the int32 limits.",
         "Trusted: reference model.", MC),
}
NA_REASON = "check not yet built in this session (work in progress; property is applicable and planned)"

checks = []
for pid in sorted(D):
    if pid not in CLAIMED:
        continue
    eng, text, note, tech = D[pid]
    cat = "fault_enumeration" if pid == "C17" else "model_checking"
    checks.append({
        "property_id": pid,
        "quick_cmd": f"scripts/check.sh {pid} quick",
        "thorough_cmd": f"scripts/check.sh {pid} thorough",
        "evidence_file": f"/verif/evidence/{pid}.json",
        "replay_cmd_template": f"scripts/check.sh {pid} replay {{path}}",
        "engine": eng,
        "level_claimed": {"category": cat, "text": text, "design_ref": f"DESIGN.md section 4, {pid}"},
        "level_note": note,
        "technique": tech,
    })
commits = subprocess.run(["git", "-C", "/repo", "log", "--format=%h %s"], capture_output=True, text=True).stdout.splitlines()
hooks = [c.split()[0] for c in commits if c.split(" ", 1)[1].startswith("verif hooks")]
m = {
    "version": 1,
    "setup_cmd": "scripts/setup.sh",
    "hooks": {
        "guard": "verif",
        "enable": "go build -tags verif (scripts/check.sh; harness module mc/go.mod replaces github.com/db47h/decimal by /repo); pool/kernel seams are substituted at build time by scripts/overlay.py (-overlay), never written to /repo",
        "baseline_off_cmd": "cd /repo && GOFLAGS=-mod=mod GOPROXY=off GOSUMDB=off GOTOOLCHAIN=local go test -json -vet=off -count=1 -timeout 25m ./...",
        "source_commits": hooks,
        "add_only": True,
    },
    "engines": [
        {"name": "E1", "path": "mc/engine.go", "serves_properties": [p for p in sorted(D) if D[p][0].startswith("E1")], "kind_free_text": "product enumerator: layers x units sharded over 16 worker processes; every case executes the real operation and is compared with the reference model"},
        {"name": "E2", "path": "mc/hist.go", "serves_properties": ["C08", "C09", "C10", "C19"], "kind_free_text": "explicit-state breadth-first search over API-call histories on real objects with state hashing"},
        {"name": "E3", "path": "mc/sched.go", "serves_properties": ["C18"], "kind_free_text": "cooperative scheduler + DFS over schedules with iterative preemption bounding"},
    ],
    "checks": checks,
    "not_applicable": [{"property_id": p, "reason": NA_REASON} for p in sorted(D) if p not in CLAIMED],
    "notes": "All checks: exit 0 = held on everything explored, 1 = VIOLATION line(s), 2 = harness/build error. KNOWN_FINDINGS.txt lists recorded findings and fixed defects.",
}
json.dump(m, open("/verif/MANIFEST.json", "w"), indent=1)
print("claimed:", " ".join(c["property_id"] for c in checks))
