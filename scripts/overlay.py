#!/usr/bin/env python3
"""Generate a build-time overlay of /repo's CURRENT sources (never written to /repo):
  dec.go                  : decPool.Get() -> verifPoolGet(), decPool.Put( -> verifPoolPut(
  dec_arith_decl_pure.go  : (only with --points) every pure-Go kernel wrapper starts with verifPoint("<name>")
usage: overlay.py <outdir> [--points]   -> writes <outdir>/overlay.json
Exit 2 (harness error) if the expected call sites are not found."""
import sys, os, re, json
out = sys.argv[1]; points = '--points' in sys.argv
repo = os.environ.get('VERIF_REPO', '/repo')
os.makedirs(out, exist_ok=True)
repl = {}
src = open(f'{repo}/dec.go').read()
ng = src.count('decPool.Get()'); np_ = src.count('decPool.Put(')
if ng < 1 or np_ < 1:
    sys.stderr.write('HARNESS-ERROR: overlay: decPool.Get()/Put( call sites not found in dec.go\n'); sys.exit(2)
src = src.replace('decPool.Get()', 'verifPoolGet()').replace('decPool.Put(', 'verifPoolPut(')
open(f'{out}/dec.go', 'w').write(src); repl[f'{repo}/dec.go'] = f'{out}/dec.go'
if points:
    p = open(f'{repo}/dec_arith_decl_pure.go').read()
    n = 0
    def add(m):
        global n
        n += 1
        return m.group(0) + '\n\tverifPoint("%s")' % m.group(1)
    p2 = re.sub(r'^func (\w+)\([^)]*\) \([^)]*\) \{', add, p, flags=re.M)
    if n < 10:
        sys.stderr.write('HARNESS-ERROR: overlay: kernel wrappers not found in dec_arith_decl_pure.go\n'); sys.exit(2)
    open(f'{out}/dec_arith_decl_pure.go', 'w').write(p2); repl[f'{repo}/dec_arith_decl_pure.go'] = f'{out}/dec_arith_decl_pure.go'
json.dump({'Replace': repl}, open(f'{out}/overlay.json', 'w'))
