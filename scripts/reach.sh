#!/bin/bash
# Reach evidence: builds the harness with coverage instrumentation of db47h/decimal, runs the given checks
# (default: all, quick) and prints per-function statement coverage of the repository's non-test sources.
# usage: reach.sh [Cnn ...]      output: reach/func.txt, reach/uncovered.txt
set -u
here="$(cd "$(dirname "$0")/.." && pwd)"
export VERIF_DIR="$here"
. "$here/scripts/env.sh"
ids=("$@"); if [ ${#ids[@]} -eq 0 ]; then ids=($(seq -f 'C%02g' 1 20)); fi
work="$(mktemp -d /tmp/verif-reach.XXXXXX)"; trap 'rm -rf "$work"' EXIT
mkdir -p "$work/cov" "$here/reach"
# the cover tool ignores -overlay, so the overlay files are materialised in a scratch copy of the tree
build() { # $1 = dir name, $2 = overlay flags, $3 = tags, $4 = output
  git clone -q /repo "$work/$1" && (cd /repo && git diff) | (cd "$work/$1" && git apply --allow-empty 2>/dev/null; true)
  VERIF_REPO=/repo python3 "$here/scripts/overlay.py" "$work/$1.ovl" $2 || exit 2
  for f in "$work/$1.ovl"/*.go; do cp "$f" "$work/$1/$(basename "$f")"; done
  sed "s#=> /repo#=> $work/$1#" "$here/mc/go.mod" > "$work/$1.mod"
  (cd "$here/mc" && go build -modfile="$work/$1.mod" -cover -coverpkg=github.com/db47h/decimal/...,verifmc -tags "$3" -o "$4" .) || exit 2
}
build r1 "" "verif" "$work/check"
build r2 "--points" "verif decimal_pure_go" "$work/check18"
for id in "${ids[@]}"; do
  b="$work/check"; [ "$id" = C18 ] && b="$work/check18"
  GOCOVERDIR="$work/cov" VERIF_DIR="$work" VERIF_BUDGET_S=600 "$b" "$id" --tier quick > "$work/out.$id" 2>&1
  echo "$id rc=$? $(grep "^$id tier" "$work/out.$id" | cut -c1-120)"
done
go tool covdata func -i="$work/cov" 2>/dev/null | grep 'github.com/db47h/decimal' | grep -v '_test.go' > "$here/reach/func.txt"
awk '$NF+0 < 100.0 {print}' "$here/reach/func.txt" | sort -t: -k1,1 -k2,2n > "$here/reach/uncovered.txt"
echo "functions: $(wc -l < "$here/reach/func.txt"), below 100%: $(wc -l < "$here/reach/uncovered.txt")"
go tool covdata textfmt -i="$work/cov" -o "$here/reach/cover.out" 2>/dev/null
