#!/bin/bash
# Runs every claimed check (tier $1, default quick) on /repo's working tree; prints one line per check.
here="$(cd "$(dirname "$0")/.." && pwd)"
tier="${1:-quick}"
rcall=0
for id in $(python3 -c "import json;print(' '.join(c['property_id'] for c in json.load(open('$here/MANIFEST.json'))['checks']))"); do
  s=$(date +%s); out=$("$here/scripts/check.sh" $id $tier 2>&1); rc=$?; e=$(date +%s)
  echo "$id rc=$rc wall=$((e-s))s $(echo "$out" | grep -c '^VIOLATION') violation lines, $(echo "$out" | grep -c '^KNOWN-FINDING') known-finding lines :: $(echo "$out" | grep "^$id tier" | cut -c1-160)"
  [ $rc -ne 0 ] && rcall=1
done
exit $rcall
