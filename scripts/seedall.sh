#!/bin/bash
# Runs every stored seeded change against the checks that are expected to catch it (meta.json)
# on a scratch clone of /repo (never /repo itself) and writes seeded/RESULTS.md.
# usage: seedall.sh [tier] [seed-id ...]
set -u
here="$(cd "$(dirname "$0")/.." && pwd)"
tier="${1:-quick}"; shift || true
scratch="$(mktemp -d /tmp/verif-seedrepo.XXXXXX)"
trap 'rm -rf "$scratch"' EXIT
git clone -q /repo "$scratch/repo"
export VERIF_REPO="$scratch/repo"
out="${SEEDALL_OUT:-$here/seeded/RESULTS.md}"   # SEEDALL_OUT: partial result file when the seed list is split over several runs
ids=("$@"); if [ ${#ids[@]} -eq 0 ]; then ids=($(ls "$here/seeded" | grep '^C')); fi
{
echo "# Seeded changes vs checks (tier $tier, /repo HEAD $(git -C /repo log --format=%h -1))"
echo
echo "| seed | breaks | check | exit | first violation |"
echo "|---|---|---|---|---|"
} > "$out.tmp"
for id in "${ids[@]}"; do
  d="$here/seeded/$id"
  prop=$(python3 -c "import json;print(json.load(open('$d/meta.json'))['breaks_property'])")
  checks=$(python3 -c "import json;print(' '.join(json.load(open('$d/meta.json'))['expected_to_be_caught_by']))")
  res=$("$here/scripts/seedtest.sh" "$d" "$tier" $checks 2>&1)
  pre=$(echo "$res" | grep -v '^RESULT' | grep -v ': ok$' | tr '\n' ' ' | cut -c1-200)
  echo "$res" | grep '^RESULT' | while read -r line; do
    chk=$(echo "$line" | sed 's/.*check=\([A-Z0-9]*\).*/\1/'); ex=$(echo "$line" | sed 's/.*exit=\([0-9]*\).*/\1/')
    first=$(echo "$line" | sed 's/.*:: //' | sed 's/|/\\|/g' | cut -c1-260)
    echo "| $id | $prop | $chk | $ex | $pre $first |" >> "$out.tmp"
  done
  echo "$id done: $(echo "$res" | grep -c 'exit=1') caught / $(echo "$res" | grep -c '^RESULT')"
done
mv "$out.tmp" "$out"
