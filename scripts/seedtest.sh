#!/bin/bash
# usage: seedtest.sh <seed dir with patch.diff + demo_test.go> <tier> <check id>...
# Applies the seeded change to /repo, confirms (baseline suite passes, demo fails with / passes
# without the change), runs the given checks, and restores /repo.  Prints one RESULT line per check.
set -u
here="$(cd "$(dirname "$0")/.." && pwd)"
. "$here/scripts/env.sh"
seed="$1"; tier="$2"; shift 2
export VERIF_DIR="$here"
. "$here/scripts/env.sh"
R="$VERIF_REPO"
cd "$R"
if [ -n "$(git status --porcelain)" ]; then echo "seedtest: $R not clean" >&2; exit 2; fi
restore() { git -C "$R" checkout -- . ; rm -f "$R/zz_seed_demo_test.go" "$R/context/zz_seed_demo_test.go"; }
trap restore EXIT
demo=$(ls "$seed"/*_test.go 2>/dev/null | head -1)
pkgdir="$R"
if [ -n "$demo" ] && grep -q '^package context' "$demo"; then pkgdir="$R/context"; fi
tname=$(grep -o 'func Test[A-Za-z0-9_]*' "$demo" | head -1 | sed 's/func //')
run_demo() { cp "$demo" $pkgdir/zz_seed_demo_test.go; (cd $pkgdir && go test -vet=off -count=1 -run "^${tname}\$" . >/tmp/seed_demo.log 2>&1); rc=$?; rm -f $pkgdir/zz_seed_demo_test.go; return $rc; }
if [ -n "$demo" ]; then
  if run_demo; then echo "  demo passes on clean tree: ok"; else echo "  DEMO FAILS ON CLEAN TREE (seed may target pre-fix code)"; tail -5 /tmp/seed_demo.log; fi
fi
if ! git apply --check "$seed/patch.diff" 2>/dev/null; then echo "RESULT seed=$seed PATCH-DOES-NOT-APPLY"; exit 3; fi
git apply "$seed/patch.diff"
if go test -vet=off -count=1 ./... >/tmp/seed_base.log 2>&1; then echo "  baseline suite passes with the change: ok"; else echo "  BASELINE FAILS WITH CHANGE"; tail -5 /tmp/seed_base.log; fi
if [ -n "$demo" ]; then
  if run_demo; then echo "  DEMO PASSES WITH CHANGE (seed not effective?)"; else echo "  demo fails with the change: ok"; fi
fi
for id in "$@"; do
  out=$(cd "$here" && timeout 3000 scripts/check.sh "$id" "$tier" 2>&1); rc=$?
  nv=$(echo "$out" | grep -c '^VIOLATION')
  first=$(echo "$out" | grep -A2 '^VIOLATION' | head -3 | cut -c1-300 | tr '\n' ' ')
  echo "RESULT seed=$seed check=$id tier=$tier exit=$rc violations_printed=$nv :: $first"
done
