#!/bin/bash
# Build the framework once, offline, so that later checks only relink.
set -eu
here="$(cd "$(dirname "$0")/.." && pwd)"
. "$here/scripts/env.sh"
mkdir -p "$here/bin" "$here/evidence" "$here/replays"
cd "$here/mc"
ovl="$(mktemp -d /tmp/verif-ovl.XXXXXX)"
python3 "$here/scripts/overlay.py" "$ovl"
go build -tags verif -overlay "$ovl/overlay.json" -o "$here/bin/check.setup" .
python3 "$here/scripts/overlay.py" "$ovl" --points
go build -tags "verif decimal_pure_go" -overlay "$ovl/overlay.json" -o "$here/bin/check.setup" .
rm -rf "$ovl"
ovl="$(mktemp -d /tmp/verif-ovl.XXXXXX)"
python3 "$here/scripts/overlay.py" "$ovl"
for t in "verif math_big_pure_go" "verif decimal_pure_go math_big_pure_go" "verif decimal_pure_go" "verif"; do go build -tags "$t" -overlay "$ovl/overlay.json" -o "$here/bin/check.setup" . ; done
python3 "$here/scripts/overlay.py" "$ovl" --points
go build -race -tags "verif decimal_pure_go" -overlay "$ovl/overlay.json" -o "$here/bin/check.setup" .
rm -rf "$ovl"
rm -f "$here/bin/check.setup"
rm -f "$here/bin/check.setup"
echo "setup ok"
