#!/bin/bash
# Build the framework once, offline, so that later checks only relink.
set -eu
here="$(cd "$(dirname "$0")/.." && pwd)"
. "$here/scripts/env.sh"
mkdir -p "$here/bin" "$here/evidence" "$here/replays"
cd "$here/mc"
go build -tags verif -o "$here/bin/check.setup" .
rm -f "$here/bin/check.setup"
echo "setup ok"
