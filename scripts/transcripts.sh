#!/bin/bash
# C07 part 2: run the same exhaustive public-API enumeration under four build-tag sets and compare digests.
# usage: transcripts.sh <summary.json>      exit 0 = identical, 1 = VIOLATION printed, 2 = harness error
set -u
here="$(cd "$(dirname "$0")/.." && pwd)"
export VERIF_DIR="$here"
. "$here/scripts/env.sh"
summary="$1"
work="$(mktemp -d /tmp/verif-tr.XXXXXX)"
trap 'rm -rf "$work"' EXIT
names=(default decimal_pure_go math_big_pure_go both_pure)
tags=("verif" "verif decimal_pure_go" "verif math_big_pure_go" "verif decimal_pure_go math_big_pure_go")
python3 "$here/scripts/overlay.py" "$work/ovl" || exit 2
pids=()
mf="$(modflag "$work")"   # once: the four builds run in parallel and would otherwise rewrite the same go.mod
for i in 0 1 2 3; do
  ( cd "$here/mc" && go build $mf -tags "${tags[$i]}" -overlay "$work/ovl/overlay.json" -o "$work/bin.$i" . ) 2> "$work/err.$i" &
  pids+=($!)
done
for i in 0 1 2 3; do
  if ! wait ${pids[$i]}; then echo "HARNESS-ERROR: transcript build failed for tags '${tags[$i]}'" >&2; cat "$work/err.$i" >&2; exit 2; fi
done
NS=4
# every shard prints one CHUNK line per chunk of cases (a chunk takes well under a second): a shard whose
# output has not grown for STALL seconds is hung inside a library call and is reported as such
STALL=${VERIF_TRANSCRIPT_STALL:-300}
declare -A spid slast ssize
for i in 0 1 2 3; do
  for s in $(seq 0 $((NS-1))); do
    ( exec "$work/bin.$i" transcript --shard $s/$NS > "$work/out.$i.$s" 2> "$work/rerr.$i.$s" ) &
    spid[$i.$s]=$!; slast[$i.$s]=$(date +%s); ssize[$i.$s]=0
  done
done
hung=""
while :; do
  alive=0
  for k in "${!spid[@]}"; do
    pid=${spid[$k]}
    [ -z "$pid" ] && continue
    if kill -0 "$pid" 2>/dev/null; then
      alive=1
      sz=$(stat -c %s "$work/out.$k" 2>/dev/null || echo 0)
      now=$(date +%s)
      if [ "$sz" != "${ssize[$k]}" ]; then ssize[$k]=$sz; slast[$k]=$now
      elif [ $((now - ${slast[$k]})) -gt "$STALL" ]; then kill -9 "$pid" 2>/dev/null; hung="$hung $k"; spid[$k]=""; fi
    else
      wait "$pid"; erc=$?
      [ $erc -ne 0 ] && echo "EXIT $erc" >> "$work/out.$k"
      spid[$k]=""
    fi
  done
  [ $alive = 0 ] && break
  sleep 2
done
if [ -n "$hung" ]; then
  mkdir -p "$here/replays"
  for k in $hung; do
    i=${k%%.*}
    rp="$here/replays/C07-transcript-${names[$i]}-hang.json"
    lastc=$(grep '^CHUNK' "$work/out.$k" | tail -1 | awk '{print $2}')
    python3 - "$rp" "${names[$i]}" "${lastc:--1}" "$k" "$STALL" <<'PY'
import json,sys
json.dump({"property":"C07","kind":"transcript-nontermination","tags":sys.argv[2],"last_completed_chunk":int(sys.argv[3]),"shard":sys.argv[4],
 "detail":"the public-API enumeration under this build printed no further chunk for %s s: a library call does not terminate"%sys.argv[5],
 "replay_cmd":"scripts/transcripts.sh /tmp/x.json"},open(sys.argv[1],"w"),indent=1)
PY
    echo "VIOLATION property=C07 replay=$rp"
    echo "  build '${names[$i]}': the enumeration stopped making progress after chunk ${lastc:-none} (no output for $STALL s): a library call does not terminate"
  done
  python3 - "$summary" "$hung" <<'PY'
import json,sys
json.dump({"tag_sets":["default","decimal_pure_go","math_big_pure_go","decimal_pure_go+math_big_pure_go"],"identical":False,"hung_shards":sys.argv[2].split()},open(sys.argv[1],"w"))
PY
  exit 1
fi
for i in 0 1 2 3; do
  cat "$work"/out.$i.* | sort -k2 -n > "$work/all.$i"
  if grep -q '^EXIT' "$work/all.$i" || ! grep -q '^CHUNK' "$work/all.$i"; then
    echo "HARNESS-ERROR: transcript run failed for ${names[$i]}" >&2; cat "$work"/rerr.$i.* | tail -20 >&2; exit 2
  fi
done
chunks=$(grep -c '^CHUNK' "$work/all.0")
cases=$(awk '/^CHUNK/{s+=$4} END{print s}' "$work/all.0")
rc=0; mism=""
for i in 1 2 3; do
  if ! cmp -s "$work/all.0" "$work/all.$i"; then
    rc=1
    c=$(diff "$work/all.0" "$work/all.$i" | grep '^<' | head -1 | awk '{print $3}')
    "$work/bin.0" transcript --dump "$c" > "$work/d0"; "$work/bin.$i" transcript --dump "$c" > "$work/d$i"
    first=$(diff "$work/d0" "$work/d$i" | grep '^[<>] CASE' | head -2 | tr '\n' ' ' | cut -c1-900)
    mkdir -p "$here/replays"
    rp="$here/replays/C07-transcript-${names[$i]}.json"
    python3 - "$rp" "${names[$i]}" "$c" "$first" <<'PY'
import json,sys
json.dump({"property":"C07","kind":"transcript-mismatch","tags":sys.argv[2],"chunk":int(sys.argv[3]),"first_difference":sys.argv[4],
 "replay_cmd":"scripts/transcripts.sh /tmp/x.json   (re-runs all four builds; chunk shown is the first differing operand index)"},open(sys.argv[1],"w"),indent=1)
PY
    echo "VIOLATION property=C07 replay=$rp"
    echo "  build '${names[$i]}' differs from the default build in chunk $c: $first"
    mism="$mism ${names[$i]}"
  fi
done
python3 - "$summary" "$chunks" "$cases" "$rc" "$mism" <<'PY'
import json,sys
json.dump({"tag_sets":["default","decimal_pure_go","math_big_pure_go","decimal_pure_go+math_big_pure_go"],"chunks_per_build":int(sys.argv[2]),
 "cases_per_build":int(sys.argv[3]),"builds_compared":4,"identical":sys.argv[4]=="0","mismatching_builds":sys.argv[5].split()},open(sys.argv[1],"w"))
PY
echo "transcripts: 4 builds × $cases cases in $chunks chunks; identical=$([ $rc = 0 ] && echo true || echo false)"
exit $rc
