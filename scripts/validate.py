#!/usr/bin/env python3-vt
import json,jsonschema,sys,glob
jsonschema.validate(json.load(open('/verif/MANIFEST.json')),json.load(open('/root/.vp/MANIFEST.schema.json')))
print('manifest ok')
m=json.load(open('/verif/MANIFEST.json'))
sch=json.load(open('/root/.vp/EVIDENCE.schema.json'))
claimed=[c['property_id'] for c in m['checks']]
na=[c['property_id'] for c in m.get('not_applicable',[])]
allp=[json.loads(l)['id'] for l in open('/verif/properties.jsonl')]
for p in allp:
    if (p in claimed)==(p in na): print('WARNING: property',p,'claimed/not_applicable inconsistent')
for c in m['checks']:
    try:
        e=json.load(open(c['evidence_file']))
        jsonschema.validate(e,sch)
        assert e['level']==c['level_claimed']['category'], 'level mismatch'
        print(c['property_id'],'evidence ok',e['tier'],e['coverage'].get('evaluations'),'exhaustive' if e['coverage'].get('exhaustive') else 'NOT exhaustive','violations',e.get('violations'))
    except Exception as ex:
        print(c['property_id'],'EVIDENCE PROBLEM',str(ex)[:200])
